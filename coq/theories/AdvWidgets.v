(* AdvWidgets.v — simpleline/render/adv_widgets.py: the stock dialogs, as data of the screen-layer model.

   Every class of adv_widgets.py is a UIScreen subclass that overrides refresh / prompt / input (and
   defines the `answer` property); ScreenSem.v describes what a screen's callbacks do by a [screen_spec].
   For each stock class this file gives THE spec that describes it, so that every theorem quantified over
   tables of specs (C04..C08, C18, C17's separator clause) speaks about applications that use the stock
   dialogs, next to their own screens.  Definitions only; the facts are in proofs/AdvWidgetsProofs.v and
   props/Adv.v.  drv/Drv_advspec.v prints these specs in the wire format of drv/Drv_screen.v; the harness
   (harness/adv_specs.py, checks/adv_corr.py) compares them with its own copy and runs sessions on the REAL
   classes against the model run on these specs.

   Modelled: the return value of input() for every key (InputState / exit), the `answer` attribute as the
   quit protocol of ScreenScheduler.process_input_result sees it (missing / True / anything else), that
   prompt() returns a prompt, input_required (True: never changed by the stock classes), no_separator
   (False: never changed), no stack operation in any callback, content that fits one page.
   Abstracted: the widgets put into the window by refresh() (title, message, help text: C15/C16/C17 are about
   rendering), the text of the prompt, the stored value (`GetInputScreen.value`, the password string), how
   the line is read (input() or getpass: `hide_user_input` only selects PasswordInputHandler, whose request
   goes through the same InputThreadManager), translation (the keys are the untranslated "yes" / "no").

   Formerly gaps, closed since ScreenSem.v has [sc_answer0] and [SSysExit]:
   (G1) the initial value of `answer`: YesNoDialog and PasswordDialog define the property in the class, initially
        None; [sc_answer0 := AnsOther] says so (it holds before any callback ran, also for a quit dialog that was
        never rendered: push_screen_modal() that returns at once after force_quit()).
   (G2) ErrorDialog.input() calls sys.exit(1): [SSysExit] (SystemExit passes `except Exception` of
        InputManager.process_input and `except ExitMainLoop` of run(), the session ends).
   What the vocabulary of ScreenSem.v still cannot say (ScreenSem.v is not changed here):
   (G3) PasswordDialog.prompt() does the work itself: it creates a PasswordInputHandler with source = the
        screen, waits for the line, stores it, calls self.close() when the input was successful, and returns
        None.  A spec's prompt is only "None or not"; the nearest description is "the last thing show_all()
        does is a blocking get_user_input(), then self.close()" ([password_dialog_spec]).  Differences:
        the source of the InputReadySignal is the screen, not its InputManager; a failed request (another
        request overlapped) does not close.  PasswordDialog.input() is described exactly, but the scheduler
        never calls it (prompt() returns None). *)
From Coq Require Import ZArith NArith List Bool.
From SL Require Import PyInt LoopSem ScreenSem.
Import ListNotations.

Definition s_yes : str := [121; 101; 115]%N.     (* C_('TUI|Spoke Navigation', 'yes') = "yes" *)
Definition s_no : str := [110; 111]%N.           (* C_('TUI|Spoke Navigation', 'no')  = "no"  *)

(* a UIScreen subclass that overrides nothing *)
Definition stock_base : screen_spec :=
  {| sc_setup := [];                 (* UIScreen.setup: always True *)
     sc_refresh := []; sc_show := []; sc_closed := [];
     sc_input := []; sc_input_default := ([], None);      (* UIScreen.input returns the key *)
     sc_prompt_none := false; sc_input_required := true; sc_no_separator := false; sc_skip_check := false;
     sc_pages := 0; sc_answer0 := AnsNoAttr; sc_custom := []; sc_setup_cmds := [] |}.

(* ---------------------------------------------------------------- YesNoDialog
   input(args, key):  key == "yes": _response = True;  return PROCESSED_AND_CLOSE
                      key == "no":  _response = False; return PROCESSED_AND_CLOSE
                      return DISCARDED                       (also for c / r / q: no global key inside the dialog)
   answer: _response (None | True | False);  prompt(): Prompt("Please respond 'yes' or 'no'") *)
Definition yes_no_dialog_spec : screen_spec :=
  {| sc_setup := []; sc_refresh := []; sc_show := []; sc_closed := [];
     sc_input := [ (s_yes, ([SSetAnswer AnsTrue], RClose)); (s_no, ([SSetAnswer AnsOther], RClose)) ];
     sc_input_default := ([], Some RDiscarded);
     sc_prompt_none := false; sc_input_required := true; sc_no_separator := false; sc_skip_check := false;
     sc_pages := 0; sc_answer0 := AnsOther;     (* self._response = None in __init__ *)
     sc_custom := []; sc_setup_cmds := [] |}.

(* ---------------------------------------------------------------- ErrorDialog
   input(args, key): sys.exit(1)   = [SSysExit];  no `answer`;  prompt(): Prompt("Press ENTER to exit") *)
Definition error_dialog_spec : screen_spec :=
  {| sc_setup := []; sc_refresh := []; sc_show := []; sc_closed := [];
     sc_input := []; sc_input_default := ([SSysExit], Some RNone);
     sc_prompt_none := false; sc_input_required := true; sc_no_separator := false; sc_skip_check := false;
     sc_pages := 0; sc_answer0 := AnsNoAttr; sc_custom := []; sc_setup_cmds := [] |}.

(* ---------------------------------------------------------------- HelpScreen
   input(args, key): return PROCESSED_AND_CLOSE;  no `answer`;  prompt(): Prompt("Press ENTER to return").
   refresh() reads the help file: its text is content (abstracted; here: it fits one page) *)
Definition help_screen_spec : screen_spec :=
  {| sc_setup := []; sc_refresh := []; sc_show := []; sc_closed := [];
     sc_input := []; sc_input_default := ([], Some RClose);
     sc_prompt_none := false; sc_input_required := true; sc_no_separator := false; sc_skip_check := false;
     sc_pages := 0; sc_answer0 := AnsNoAttr; sc_custom := []; sc_setup_cmds := [] |}.

(* ---------------------------------------------------------------- GetInputScreen / GetPasswordInputScreen
   input(args, key): if not self._test_input(key): return DISCARDED
                     self._value = key; return PROCESSED_AND_CLOSE
   _test_input(key): for f, args in self._conditions: if not f(key, args): return False;  return True
   An acceptance condition is a function of the key; with a finite table of literal keys plus a default
   ([sc_input], [sc_input_default]) exactly the conditions "key is one of l" / "key is none of l" and their
   conjunctions can be written ([CondIn []] = never, [CondNotIn []] = always).  Conditions are pure
   (no side effects, no exceptions), so that the short-circuit of _test_input is not observable. *)
Inductive acond := CondIn (l : list str) | CondNotIn (l : list str).

Definition str_eqb (a b : str) : bool :=                      (* the comparison of ScreenSem.assoc_str *)
  (length a =? length b)%nat && forallb (fun p => (fst p =? snd p)%N) (combine a b).
Definition mem_str (k : str) (l : list str) : bool := existsb (str_eqb k) l.
Definition cond_accepts (c : acond) (k : str) : bool :=
  match c with CondIn l => mem_str k l | CondNotIn l => negb (mem_str k l) end.
Definition test_input (conds : list acond) (k : str) : bool := forallb (fun c => cond_accepts c k) conds.

Definition cond_keys (c : acond) : list str := match c with CondIn l => l | CondNotIn l => l end.
Definition cond_default (c : acond) : bool := match c with CondIn _ => false | CondNotIn _ => true end.
Definition accept_ret (b : bool) : ret_val := if b then RClose else RDiscarded.

Definition get_input_screen_spec (conds : list acond) : screen_spec :=
  {| sc_setup := []; sc_refresh := []; sc_show := []; sc_closed := [];
     sc_input := map (fun k => (k, ([], accept_ret (test_input conds k)))) (flat_map cond_keys conds);
     sc_input_default := ([], Some (accept_ret (forallb cond_default conds)));
     sc_prompt_none := false; sc_input_required := true; sc_no_separator := false; sc_skip_check := false;
     sc_pages := 0; sc_answer0 := AnsNoAttr; sc_custom := []; sc_setup_cmds := [] |}.

(* GetPasswordInputScreen = GetInputScreen with hide_user_input = True (the line is read by getpass) *)
Definition get_password_input_screen_spec (conds : list acond) : screen_spec := get_input_screen_spec conds.

(* ---------------------------------------------------------------- PasswordDialog  -- (G3)
   prompt(): handler = PasswordInputHandler(source=self); handler.get_input(...); handler.wait_on_input()
             if not handler.input_successful(): return None
             self._password = handler.value; self.close(); return None
   input(args, key): if key: _password = key; return PROCESSED_AND_CLOSE;  return DISCARDED
   answer: _password (None | the string): never `True` *)
Definition password_dialog_spec : screen_spec :=
  {| sc_setup := []; sc_refresh := [];
     sc_show := [SGetUserInput; SCloseSig];
     sc_closed := [];
     sc_input := [ ([], ([], RDiscarded)) ]; sc_input_default := ([SSetAnswer AnsOther], Some RClose);
     sc_prompt_none := true; sc_input_required := true; sc_no_separator := false; sc_skip_check := false;
     sc_pages := 0; sc_answer0 := AnsOther;     (* self._password = None in __init__ *)
     sc_custom := []; sc_setup_cmds := [] |}.

(* ---------------------------------------------------------------- the kinds the harness can ask for *)
Inductive adv_kind :=
| KYesNo | KError | KHelp | KGetInput (conds : list acond) | KGetPasswordInput (conds : list acond) | KPassword.

Definition adv_spec (k : adv_kind) : screen_spec :=
  match k with
  | KYesNo => yes_no_dialog_spec
  | KError => error_dialog_spec
  | KHelp => help_screen_spec
  | KGetInput c => get_input_screen_spec c
  | KGetPasswordInput c => get_password_input_screen_spec c
  | KPassword => password_dialog_spec
  end.
