(* Prompt.v — simpleline/render/prompt.py class Prompt, line by line.
   self.options is a Python dict: an association list in first-insertion order with unique keys
   (assignment to an existing key overwrites in place, to a new key appends; pop deletes).
   self.message is str | None.  `_` / `N_` are the identity (no translation catalogue).
   Keys, descriptions and messages are strings (lists of code points); str comparison and sorted()
   are lexicographic by code point.
   Definitions only; the vocabulary of the C12 statements (pop, abstract map, format_prompt) is at
   the end. *)
From Coq Require Import ZArith NArith List Bool.
From SL Require Import PyInt Widget TextWrap.
Import ListNotations.
Local Open Scope N_scope.

(* ---- str comparison: lexicographic by code point, a proper prefix is smaller -------------- *)
Fixpoint str_compare (a b : str) : comparison :=
  match a, b with
  | [], [] => Eq
  | [], _ :: _ => Lt
  | _ :: _, [] => Gt
  | x :: a', y :: b' =>
    match N.compare x y with
    | Eq => str_compare a' b'
    | c => c
    end
  end.
Definition str_lt (a b : str) : Prop := str_compare a b = Lt.        (* a < b *)
Definition str_eq (a b : str) : bool := match str_compare a b with Eq => true | _ => false end.
Definition str_le (a b : str) : bool := match str_compare a b with Gt => false | _ => true end.

(* ---- dict ------------------------------------------------------------------------------- *)
Definition dict := list (str * str).

Fixpoint dict_get (d : dict) (k : str) : option str :=            (* d.get(k) *)
  match d with
  | [] => None
  | (k', v) :: r => if str_eq k k' then Some v else dict_get r k
  end.
Definition dict_mem (d : dict) (k : str) : bool :=                (* k in d *)
  match dict_get d k with Some _ => true | None => false end.
Fixpoint dict_set (d : dict) (k v : str) : dict :=                (* d[k] = v *)
  match d with
  | [] => [(k, v)]
  | (k', v') :: r => if str_eq k k' then (k', v) :: r else (k', v') :: dict_set r k v
  end.
Fixpoint dict_pop (d : dict) (k : str) : dict :=                  (* d.pop(k, None) *)
  match d with
  | [] => []
  | (k', v') :: r => if str_eq k k' then r else (k', v') :: dict_pop r k
  end.
Definition dict_keys (d : dict) : list str := map fst d.

(* ---- sorted(keys): insertion sort ------------------------------------------------------ *)
Fixpoint insert_key (k : str) (l : list str) : list str :=
  match l with
  | [] => [k]
  | h :: t => if str_le k h then k :: l else h :: insert_key k t
  end.
Definition sort_keys (l : list str) : list str := fold_right insert_key [] l.

(* ---- Prompt ---------------------------------------------------------------------------- *)
Record prompt := { p_message : option str; p_options : dict }.

(* "Please make a selection from the above" *)
Definition DEFAULT_MESSAGE : str :=
  [80;108;101;97;115;101;32;109;97;107;101;32;97;32;115;101;108;101;99;116;105;111;110;32;102;114;111;109;
   32;116;104;101;32;97;98;111;118;101].
Definition QUIT : str := [113].                                        (* 'q' *)
Definition QUIT_DESCRIPTION : str := [116;111;32;113;117;105;116].      (* "to quit" *)
Definition CONTINUE : str := [99].                                     (* 'c' *)
Definition CONTINUE_DESCRIPTION : str := [116;111;32;99;111;110;116;105;110;117;101].   (* "to continue" *)
Definition REFRESH : str := [114].                                     (* 'r' *)
Definition REFRESH_DESCRIPTION : str := [116;111;32;114;101;102;114;101;115;104].      (* "to refresh" *)
Definition HELP : str := [104].                                        (* 'h' *)
Definition HELP_DESCRIPTION : str := [116;111;32;104;101;108;112].      (* "to help" *)

Definition new_prompt (message : option str) : prompt := {| p_message := message; p_options := [] |}.
Definition set_message (p : prompt) (message : option str) : prompt :=
  {| p_message := message; p_options := p_options p |}.
(* add_option / update_option differ only by which case logs a warning *)
Definition add_option (p : prompt) (key description : str) : prompt :=
  {| p_message := p_message p; p_options := dict_set (p_options p) key description |}.
Definition update_option (p : prompt) (key description : str) : prompt :=
  {| p_message := p_message p; p_options := dict_set (p_options p) key description |}.
Definition add_special (key : str) (p : prompt) (description : str) : prompt :=
  if dict_mem (p_options p) key then update_option p key description else add_option p key description.
Definition add_refresh_option := add_special REFRESH.
Definition add_continue_option := add_special CONTINUE.
Definition add_quit_option := add_special QUIT.
Definition add_help_option := add_special HELP.
Definition remove_option (p : prompt) (key : str) : prompt :=
  {| p_message := p_message p; p_options := dict_pop (p_options p) key |}.

(* sep.join(l) *)
Fixpoint join (sep : str) (l : list str) : str :=
  match l with
  | [] => []
  | x :: r => match r with [] => x | _ => x ++ sep ++ join sep r end
  end.

Definition QUOTE : N := 39.
(* "'%s' %s" % (key, description) *)
Definition opt_item (key description : str) : str := QUOTE :: key ++ [QUOTE; 32] ++ description.

(* `if self.message` : None and "" are false *)
Definition message_part (m : option str) : list str :=
  match m with
  | Some (c :: r) => [c :: r]
  | _ => []
  end.

(* Prompt.__str__ *)
Definition prompt_str (p : prompt) : str :=
  match message_part (p_message p), p_options p with
  | [], [] => []                                                (* if not self.message and not self.options: return "" *)
  | parts_msg, opts =>
    let parts_opt :=
      match opts with
      | [] => []
      | _ =>
        let opt_list := map (fun key => opt_item key (match dict_get opts key with Some d => d | None => [] end))
                            (sort_keys (dict_keys opts)) in
        [[91] ++ join [44; 32] opt_list ++ [93]]                  (* "[%s]" % ", ".join(opt_list) *)
      end in
    join [32] (parts_msg ++ parts_opt) ++ [58; 32]                (* " ".join(parts) + ": " *)
  end.

(* InputHandlerRequest.text_prompt():
     widget = TextWidget(str(self._prompt)); widget.render(self._width)
     return "\n".join(widget.get_lines()) + " "
   [t] is the text widget of str(prompt): t_text t = prompt_str p, with its chunk oracle *)
Definition text_prompt (t : text) (width : Z) : rres str :=
  match render_text t width with
  | ROk b => ROk (join_nl b ++ [32])
  | RValueError => RValueError
  | ROutOfModel => ROutOfModel
  end.

(* ---- vocabulary of the statements ------------------------------------------------------ *)
Inductive pop :=
| PAdd (k d : str) | PUpdate (k d : str) | PRemove (k : str) | PSetMsg (m : option str)
| PAddRefresh (d : str) | PAddContinue (d : str) | PAddQuit (d : str) | PAddHelp (d : str).

Definition apply_pop (p : prompt) (o : pop) : prompt :=
  match o with
  | PAdd k d => add_option p k d
  | PUpdate k d => update_option p k d
  | PRemove k => remove_option p k
  | PSetMsg m => set_message p m
  | PAddRefresh d => add_refresh_option p d
  | PAddContinue d => add_continue_option p d
  | PAddQuit d => add_quit_option p d
  | PAddHelp d => add_help_option p d
  end.
Definition run_pops (p : prompt) (ops : list pop) : prompt := fold_left apply_pop ops p.

(* the abstract state: which description is defined for which key, and the message *)
Definition amap := str -> option str.
Definition amap_set (m : amap) (k d : str) : amap := fun k' => if str_eq k' k then Some d else m k'.
Definition amap_del (m : amap) (k : str) : amap := fun k' => if str_eq k' k then None else m k'.
Definition amap_apply (m : amap) (o : pop) : amap :=
  match o with
  | PAdd k d | PUpdate k d => amap_set m k d
  | PRemove k => amap_del m k
  | PSetMsg _ => m
  | PAddRefresh d => amap_set m REFRESH d
  | PAddContinue d => amap_set m CONTINUE d
  | PAddQuit d => amap_set m QUIT d
  | PAddHelp d => amap_set m HELP d
  end.
Definition amap_of (ops : list pop) : amap := fold_left amap_apply ops (fun _ => None).
Definition amsg_apply (m : option str) (o : pop) : option str :=
  match o with PSetMsg m' => m' | _ => m end.
Definition amsg_of (m0 : option str) (ops : list pop) : option str := fold_left amsg_apply ops m0.

(* the text of a prompt with message m listing the options (key, description) in the given order *)
Definition format_prompt (m : option str) (listing : list (str * str)) : str :=
  match m, listing with
  | (None | Some []), [] => []
  | (None | Some []), _ => [91] ++ join [44; 32] (map (fun kd => opt_item (fst kd) (snd kd)) listing) ++ [93; 58; 32]
  | Some msg, [] => msg ++ [58; 32]
  | Some msg, _ => msg ++ [32; 91] ++ join [44; 32] (map (fun kd => opt_item (fst kd) (snd kd)) listing) ++ [93; 58; 32]
  end.
