#!/bin/bash
# tools/coverage.sh [Cxx ...] — DEVELOPMENT AID, not a registered command: line coverage of /repo/simpleline while the
# quick checks run (main process and worker subprocesses).  Lines never executed by any check cannot be guarded by the
# correspondence; the report (notes/coverage.txt) is what DESIGN.md section 11 quotes.
V="$(cd "$(dirname "$0")/.." && pwd)"; C=/tmp/verif_cov; rm -rf $C; mkdir -p $C/site $C/data
printf 'import coverage\ncoverage.process_startup()\n' > $C/site/sitecustomize.py
printf '[run]\nparallel = True\ndata_file = %s/data/.coverage\nsource = /repo/simpleline\nconcurrency = thread\nsigterm = True\n' $C > $C/rc
cd "$V"; P="${@:-C01 C02 C03 C04 C05 C06 C07 C08 C09 C10 C11 C12 C13 C14 C15 C16 C17 C18 C19 C20}"
for p in $P; do
  COVERAGE_PROCESS_START=$C/rc PYTHONPATH=$C/site VERIF_EXTRA_PYTHONPATH=$C/site VERIF_GRACEFUL=1 VERIF_DEV=1 \
  VERIF_EVIDENCE_DIR=$C/ev VERIF_REPLAY_DIR=$C/ev timeout 3000 ./check $p --tier quick 2>&1 | tail -1
done
cd $C/data && /venv/bin/python -m coverage combine --rcfile=$C/rc >/dev/null 2>&1
/venv/bin/python -m coverage report --rcfile=$C/rc -m --data-file=$C/data/.coverage > "$V/notes/coverage.txt" 2>&1
tail -40 "$V/notes/coverage.txt"; rm -rf $C
