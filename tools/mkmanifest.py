#!/venv/bin/python
"""Assemble /verif/MANIFEST.json from the MANIFEST dict of every checks/Cxx.py."""
import json, sys, os, importlib.util, re
sys.dont_write_bytecode = True
sys.path.insert(0, "/verif/harness"); sys.path.insert(0, "/verif/checks")
props = [json.loads(l)["id"] for l in open("/verif/properties.jsonl")]
checks, na = [], []
PENDING = {}
if os.path.exists("/verif/checks/not_claimed.json"):
    PENDING = json.load(open("/verif/checks/not_claimed.json"))
WIP = [l.strip() for l in open("/verif/coq/wip.exclude")] if os.path.exists("/verif/coq/wip.exclude") else []
def is_wip(pid):
    return any(re.search(pat, "theories/props/%s.v" % pid) for pat in WIP if pat)
for pid in props:
    path = "/verif/checks/%s.py" % pid
    if is_wip(pid):
        na.append(dict(property_id=pid, reason=PENDING.get(pid, "not claimed yet: its theorems are still being proved (work in progress, excluded from the strict build by coq/wip.exclude)")))
        continue
    if not os.path.exists(path) or not os.path.exists("/verif/coq/theories/props/%s.v" % pid):
        na.append(dict(property_id=pid, reason=PENDING.get(pid, "not claimed yet: its model layer and theorems are not built in this tree (see DESIGN.md section 7 for the plan)")))
        continue
    spec = importlib.util.spec_from_file_location("chk_" + pid, path)
    mod = importlib.util.module_from_spec(spec); spec.loader.exec_module(mod)
    m = mod.MANIFEST
    checks.append(dict(
        property_id=pid,
        quick_cmd="./check %s --tier quick" % pid,
        thorough_cmd="./check %s --tier thorough" % pid,
        evidence_file="/verif/evidence/%s.json" % pid,
        replay_cmd_template="./check %s --replay {path}" % pid,
        engine="coq-model+correspondence",
        level_claimed=dict(category="proof", text=m["text"], design_ref=m.get("design_ref", "DESIGN.md section 7, " + pid)),
        level_note=m["note"],
        technique=m["technique"]))
man = dict(
    version=1,
    setup_cmd="tools/build.sh --gate",
    hooks=dict(guard="SIMPLELINE_VERIF", enable="export SIMPLELINE_VERIF=1 (informational: no source hooks are needed, all observation is through public seams)",
               baseline_off_cmd="cd /repo && /venv/bin/python -m pytest -ra -q -p no:cacheprovider --timeout=900 --continue-on-collection-errors",
               source_commits=[], add_only=True),
    engines=[dict(name="coq-model+correspondence", path="/verif/coq + /verif/harness + /verif/checks",
                  serves_properties=[c["property_id"] for c in checks],
                  kind_free_text="Coq 8.16 theorems about a hand-written executable Gallina model; the model is tied to /repo's working tree on every check in two ways: (a) it is extracted to OCaml (ExtrOcamlBasic) and run against the implementation on the same cases (correspondence), (b) the straight-line / table-like parts of the source are re-translated to Gallina by tools/translate.py on every build and proved equal to the model (props/Translated.v)")],
    checks=checks,
    notes="Every check: (1) rebuilds the Coq development (full .vo), (2) re-checks props/<id>.v and its Print Assumptions, (3) runs the correspondence model<->/repo, (4) writes evidence. Fixed defects and known findings: known_findings.json.",
    not_applicable=na)
json.dump(man, open("/verif/MANIFEST.json", "w"), indent=1)
print("MANIFEST: %d checks, %d not claimed" % (len(checks), len(na)))
