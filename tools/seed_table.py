#!/usr/bin/env python3
"""seed_table.py — regenerates the table of seeded changes in DESIGN.md (between the seeded-table markers)
from seeded/*/meta.json, so that "which check catches which change" is always what was actually recorded."""
import json, glob, os, re
V = os.path.dirname(os.path.dirname(os.path.abspath(__file__)))


def one_line(s, n):
    s = " ".join((s or "").split())
    return s if len(s) <= n else s[:n - 1].rstrip() + "…"


rows = ["| change | what was changed | caught by | caught by the first version of the check? |", "|---|---|---|---|"]
for d in sorted(glob.glob(os.path.join(V, "seeded", "*"))):
    p = os.path.join(d, "meta.json")
    if not os.path.exists(p):
        continue
    m = json.load(open(p))
    cb = m.get("caught_by", {})
    how = []
    for k, v in sorted(cb.items()):
        det = one_line(v.get("detail", ""), 90).lstrip("-> ").replace("|", "/")
        how.append("%s (%s)" % (k, det) if det else k)
    miss = m.get("missed_at_first")
    rows.append("| %s | %s | %s | %s |" % (os.path.basename(d), one_line(m.get("summary", ""), 170).replace("|", "/"),
                                         "; ".join(how) or "**not caught**",
                                         ("**no** — " + one_line(miss, 260).replace("|", "/")) if miss else "yes"))
p = os.path.join(V, "DESIGN.md")
s = open(p).read()
new = "<!-- seeded-table-begin -->\n" + "\n".join(rows) + "\n<!-- seeded-table-end -->"
s2, n = re.subn(r"<!-- seeded-table-begin -->.*?<!-- seeded-table-end -->", lambda _: new, s, flags=re.S)
if n != 1:
    raise SystemExit("markers not found in DESIGN.md")
open(p, "w").write(s2)
print("seeded table: %d rows" % (len(rows) - 2))
