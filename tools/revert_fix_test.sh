#!/bin/bash
# revert_fix_test.sh <commit> <check id> — revert one 'fix:' commit in a scratch copy of /repo and run a check against it.
V=$(cd "$(dirname "$0")/.." && pwd)
S=$(mktemp -d -t revfix_XXXX)
git -C /repo archive HEAD | tar x -C $S
git -C /repo show $1 | (cd $S && patch -R -p1 -s) || { echo "cannot revert $1"; rm -rf $S; exit 2; }
(cd $V && VERIF_REPO=$S VERIF_EVIDENCE_DIR=$S/_ev VERIF_REPLAY_DIR=$S/_rp ./check $2 --tier quick 2>&1 | grep -E "VIOLATION|KNOWN|  -> |quick:" | cut -c1-260 | head -6)
rm -rf $S
