#!/usr/bin/env python3
"""Fail if a Variable/Hypothesis/Context declaration occurs outside a Section in any .v file."""
import re, sys, pathlib
bad = 0
for p in pathlib.Path(sys.argv[1]).rglob("*.v"):
    depth = 0
    txt = re.sub(r"\(\*.*?\*\)", "", p.read_text(), flags=re.S)
    for n, line in enumerate(txt.splitlines(), 1):
        s = line.strip()
        if re.match(r"Section\s+\w+\s*\.", s): depth += 1
        elif re.match(r"End\s+\w+\s*\.", s) and depth > 0: depth -= 1
        elif re.match(r"(Variables?|Hypothes[ie]s|Context)\b", s) and depth == 0:
            print(f"{p}:{n}: {s}"); bad = 1
sys.exit(bad)
