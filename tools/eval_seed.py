#!/venv/bin/python
"""eval_seed.py <seed_dir> [check ids ...] — confirm a seeded change and run checks against it.

<seed_dir> holds patch.diff, demo.py, meta.json.  Steps (all in a scratch copy of /repo outside /repo and
/verif, removed afterwards):
  1. the patch applies; the repository's own suite still gives 169 passed;
  2. demo.py exits 1 on the changed tree and 0 on the unchanged tree;
  3. each named check (default: the property in meta.json) is run with VERIF_REPO=<scratch> in quick tier:
     it must print a VIOLATION line.
Prints a JSON summary; exit 0 iff the change is confirmed AND caught by at least one of the checks."""
import sys, os, json, subprocess, shutil, tempfile

seed = os.path.abspath(sys.argv[1])
ROOT = os.path.dirname(os.path.dirname(os.path.abspath(__file__)))      # the tree this script lives in (/verif, or a copy used to evaluate seeds in parallel)
meta = json.load(open(os.path.join(seed, "meta.json")))
checks = sys.argv[2:] or [meta["property"]]
tier = os.environ.get("EVAL_TIER", "quick")
scratch = tempfile.mkdtemp(prefix="evalrepo_")
res = dict(seed=seed, property=meta["property"], checks={})
try:
    subprocess.run("git -C /repo archive HEAD | tar x -C %s" % scratch, shell=True, check=True)
    env = dict(os.environ, PYTHONPATH=scratch, PYTHONDONTWRITEBYTECODE="1", PYTHONHASHSEED="0")
    clean = subprocess.run(["/venv/bin/python", os.path.join(seed, "demo.py")], cwd=scratch, env=env,
                           capture_output=True, text=True, timeout=300)
    res["demo_clean_rc"] = clean.returncode
    ap = subprocess.run(["git", "apply", "--unsafe-paths", "--directory=" + scratch, os.path.join(seed, "patch.diff")],
                        cwd="/", capture_output=True, text=True)
    if ap.returncode != 0:
        ap = subprocess.run(["patch", "-p1", "-i", os.path.join(seed, "patch.diff")], cwd=scratch, capture_output=True, text=True)
    res["patch_applies"] = ap.returncode == 0
    if not res["patch_applies"]:
        res["patch_error"] = (ap.stderr or ap.stdout)[-400:]
    t = subprocess.run(["/venv/bin/python", "-m", "pytest", "-q", "-p", "no:cacheprovider", "--timeout=900",
                        "--continue-on-collection-errors"], cwd=scratch, env=env, capture_output=True, text=True, timeout=900)
    res["suite"] = t.stdout.strip().splitlines()[-1] if t.stdout.strip() else ""
    res["suite_ok"] = "169 passed" in res["suite"] and "failed" not in res["suite"]
    mut = subprocess.run(["/venv/bin/python", os.path.join(seed, "demo.py")], cwd=scratch, env=env,
                         capture_output=True, text=True, timeout=300)
    res["demo_mutant_rc"] = mut.returncode
    res["demo_mutant_out"] = (mut.stdout + mut.stderr)[-300:]
    res["confirmed"] = bool(res["patch_applies"] and res["suite_ok"] and res["demo_clean_rc"] == 0 and res["demo_mutant_rc"] == 1)
    caught = False
    for c in checks:
        p = subprocess.run(["./check", c, "--tier", tier], cwd=ROOT,
                           env=dict(os.environ, VERIF_REPO=scratch, VERIF_DEV=os.environ.get("VERIF_DEV", "0"),
                                    VERIF_EVIDENCE_DIR=os.path.join(scratch, "_evidence"),
                                    VERIF_REPLAY_DIR=os.path.join(scratch, "_replays")),
                           capture_output=True, text=True, timeout=3600)
        v = [l for l in p.stdout.splitlines() if l.startswith("VIOLATION")]
        detail = [l for l in p.stdout.splitlines() if l.startswith("  -> ")]
        res["checks"][c] = dict(rc=p.returncode, violations=v[:5], detail=[d[:300] for d in detail[:3]],
                                last=p.stdout.strip().splitlines()[-1] if p.stdout.strip() else "")
        caught = caught or (p.returncode == 1 and bool(v))
    res["caught"] = caught
finally:
    shutil.rmtree(scratch, ignore_errors=True)
print(json.dumps(res, indent=1))
sys.exit(0 if (res.get("confirmed") and res.get("caught")) else 1)
