#!/usr/bin/env python3
"""translate.py <repo> — a small FAIL-CLOSED translator from the Python source to Gallina.

It covers only pieces of /repo that are pure decision tables / constants (the second kind of tie the brief
allows, used here in addition to the correspondence check):
  * InputManager._process_input         -> t_process_input : ret_val -> action     (the answer table of C07)
  * InputManager thresholds             -> t_error_threshold, t_threshold_exceeded
  * UserInputAction.was_successful      -> t_was_successful
  * KeyPattern.__init__ defaults, get_widget_label, translate_input_to_widget_id (C14)
  * Prompt key constants                -> t_REFRESH, t_CONTINUE, t_QUIT, t_HELP
  * ExceptionSignal priority, AbstractSignal default priority
  * UIScreen._print_widget prompt_height, InputManager default flags
The output (coq/theories/gen/Translated.v) is regenerated from the CURRENT source on every build;
proofs/TranslatedEq.v proves each translated definition equal to the hand-written model.  Every statement the
translator does not recognise makes it stop with an error naming the construct: the generated file then does
not compile and the properties that depend on it (C07, C14, C02, C12) report a broken proof obligation.
"""
import ast, sys, os

repo = sys.argv[1] if len(sys.argv) > 1 else "/repo"


class Unsupported(Exception):
    pass


def parse(rel):
    return ast.parse(open(os.path.join(repo, rel)).read())


def find_class(tree, name):
    for n in ast.walk(tree):
        if isinstance(n, ast.ClassDef) and n.name == name:
            return n
    raise Unsupported("class %s not found" % name)


def find_func(cls, name):
    for n in cls.body:
        if isinstance(n, ast.FunctionDef) and n.name == name:
            return n
    raise Unsupported("method %s.%s not found" % (cls.name, name))


def body_wo_doc(fn):
    b = fn.body
    if b and isinstance(b[0], ast.Expr) and isinstance(getattr(b[0], "value", None), ast.Constant) and isinstance(b[0].value.value, str):
        b = b[1:]
    return b


def coq_str(s):
    return "[" + "; ".join("%d%%N" % ord(c) for c in s) + "]"


def attr_path(e):
    if isinstance(e, ast.Attribute):
        return attr_path(e.value) + [e.attr]
    if isinstance(e, ast.Name):
        return [e.id]
    raise Unsupported("expression %s" % ast.dump(e))


# ---------------------------------------------------------------- Prompt constants
def prompt_constants():
    cls = find_class(parse("simpleline/render/prompt.py"), "Prompt")
    out = {}
    for n in cls.body:
        if isinstance(n, ast.Assign) and len(n.targets) == 1 and isinstance(n.targets[0], ast.Name):
            v = n.value
            if isinstance(v, ast.Call) and isinstance(v.func, ast.Name) and v.func.id == "N_" and len(v.args) == 1:
                v = v.args[0]
            if isinstance(v, ast.Constant) and isinstance(v.value, str):
                out[n.targets[0].id] = v.value
    for k in ("REFRESH", "CONTINUE", "QUIT", "HELP", "DEFAULT_MESSAGE", "ENTER", "QUIT_DESCRIPTION",
              "CONTINUE_DESCRIPTION", "REFRESH_DESCRIPTION", "HELP_DESCRIPTION"):
        if k not in out:
            raise Unsupported("Prompt.%s is not a string constant" % k)
    return out


# ---------------------------------------------------------------- InputManager._process_input
STATE = {"PROCESSED": "RProcessed", "PROCESSED_AND_REDRAW": "RRedraw", "PROCESSED_AND_CLOSE": "RClose", "DISCARDED": "RDiscarded"}
ACTION = {"NOOP": "ANoop", "REDRAW": "ARedraw", "CLOSE": "AClose", "QUIT": "AQuit", "INPUT_ERROR": "AError"}


def process_input_table(pc):
    cls = find_class(parse("simpleline/render/screen/input_manager.py"), "InputManager")
    fn = find_func(cls, "_process_input")
    body = body_wo_doc(fn)
    tests = []
    final = None
    seen_call = False
    for st in body:
        if isinstance(st, ast.ImportFrom):
            continue
        if isinstance(st, ast.Assign):
            # key = self._ui_screen.input(self._input_args, key)
            c = st.value
            if len(st.targets) == 1 and isinstance(st.targets[0], ast.Name) and st.targets[0].id == "key" and \
               isinstance(c, ast.Call) and attr_path(c.func) == ["self", "_ui_screen", "input"] and len(c.args) == 2 and \
               attr_path(c.args[0]) == ["self", "_input_args"] and isinstance(c.args[1], ast.Name) and c.args[1].id == "key" and not seen_call:
                seen_call = True
                continue
            raise Unsupported("_process_input: assignment " + ast.unparse(st))
        if isinstance(st, ast.If):
            t = st.test
            if isinstance(t, ast.Compare) and len(t.ops) == 1 and isinstance(t.left, ast.Name) and t.left.id == "key" and not st.orelse:
                rhs = t.comparators[0]
                if isinstance(t.ops[0], ast.Is) and isinstance(rhs, ast.Constant) and rhs.value is None:
                    # if key is None: log.warning(...)   — logging only
                    if all(isinstance(x, ast.Expr) and isinstance(x.value, ast.Call) and attr_path(x.value.func)[0] == "log" for x in st.body):
                        continue
                    raise Unsupported("_process_input: body of 'if key is None'")
                if isinstance(t.ops[0], ast.Eq) and len(st.body) == 1 and isinstance(st.body[0], ast.Return):
                    ret = attr_path(st.body[0].value)
                    if len(ret) != 2 or ret[0] != "UserInputAction" or ret[1] not in ACTION:
                        raise Unsupported("_process_input: return " + ast.unparse(st.body[0]))
                    p = attr_path(rhs)
                    if p[0] == "InputState" and len(p) == 2 and p[1] in STATE:
                        tests.append(("state", STATE[p[1]], ACTION[ret[1]]))
                        continue
                    if p[0] == "Prompt" and len(p) == 2 and p[1] in pc:
                        tests.append(("key", pc[p[1]], ACTION[ret[1]]))
                        continue
            raise Unsupported("_process_input: statement " + ast.unparse(st)[:80])
        if isinstance(st, ast.Return):
            ret = attr_path(st.value)
            if len(ret) == 2 and ret[0] == "UserInputAction" and ret[1] in ACTION and st is body[-1]:
                final = ACTION[ret[1]]
                continue
        raise Unsupported("_process_input: statement " + ast.unparse(st)[:80])
    if not seen_call or final is None:
        raise Unsupported("_process_input: unexpected shape")
    lines = ["Definition t_process_input (rv : ret_val) : action :="]
    for kind, what, act in tests:
        if kind == "state":
            lines.append("  if (match rv with %s => true | _ => false end) then %s else" % (what, act))
        else:
            lines.append("  if (match rv with RKey k => t_streq k %s | _ => false end) then %s else" % (coq_str(what), act))
    lines.append("  %s." % final)
    return "\n".join(lines)


def input_manager_constants():
    cls = find_class(parse("simpleline/render/screen/input_manager.py"), "InputManager")
    init = find_func(cls, "__init__")
    vals = {}
    for st in ast.walk(init):
        if isinstance(st, ast.Assign) and len(st.targets) == 1 and isinstance(st.targets[0], ast.Attribute) and \
           isinstance(st.value, ast.Constant):
            vals[st.targets[0].attr] = st.value.value
    if not isinstance(vals.get("_input_error_threshold"), int) or vals.get("_input_error_counter") != 0 or \
       vals.get("_skip_concurrency_check") is not False:
        raise Unsupported("InputManager.__init__ defaults")
    # input_error_threshold_exceeded:  errors = counter % threshold ; return errors == 0
    fn = None
    for n in cls.body:
        if isinstance(n, ast.FunctionDef) and n.name == "input_error_threshold_exceeded":
            fn = n
    b = body_wo_doc(fn)
    ok = (len(b) == 2 and isinstance(b[0], ast.Assign) and ast.unparse(b[0].value) == "self._input_error_counter % self._input_error_threshold"
          and isinstance(b[1], ast.Return) and ast.unparse(b[1].value) == "%s == 0" % b[0].targets[0].id)
    if not ok:
        raise Unsupported("input_error_threshold_exceeded: " + ast.unparse(fn)[:120])
    # was_successful
    ua = find_class(parse("simpleline/render/screen/input_manager.py"), "UserInputAction")
    ws = body_wo_doc(find_func(ua, "was_successful"))
    if not (len(ws) == 1 and isinstance(ws[0], ast.Return) and ast.unparse(ws[0].value) == "self != UserInputAction.INPUT_ERROR"):
        raise Unsupported("UserInputAction.was_successful")
    return ("Definition t_error_threshold : nat := %d.\n"
            "Definition t_threshold_exceeded (counter : nat) : bool := (Nat.modulo counter t_error_threshold =? 0)%%nat.\n"
            "Definition t_was_successful (a : action) : bool := match a with AError => false | _ => true end."
            % vals["_input_error_threshold"])


# ---------------------------------------------------------------- KeyPattern
def key_pattern():
    cls = find_class(parse("simpleline/render/containers.py"), "KeyPattern")
    init = find_func(cls, "__init__")
    names = [a.arg for a in init.args.args]
    defaults = [d.value for d in init.args.defaults if isinstance(d, ast.Constant)]
    if names != ["self", "pattern", "offset"] or len(defaults) != 2 or not isinstance(defaults[0], str) or not isinstance(defaults[1], int):
        raise Unsupported("KeyPattern.__init__ signature")
    pat, off = defaults
    if pat.count("{:d}") != 1 or "{" in pat.replace("{:d}", "") or "}" in pat.replace("{:d}", ""):
        raise Unsupported("KeyPattern default pattern %r is not prefix{:d}suffix" % pat)
    pre, suf = pat.split("{:d}")
    gl = body_wo_doc(find_func(cls, "get_widget_label"))
    if not (len(gl) == 1 and isinstance(gl[0], ast.Return) and ast.unparse(gl[0].value) == "self._pattern.format(item_id + self._offset)"):
        raise Unsupported("KeyPattern.get_widget_label: " + ast.unparse(gl[0])[:100])
    tr = body_wo_doc(find_func(cls, "translate_input_to_widget_id"))
    ok = (len(tr) == 1 and isinstance(tr[0], ast.Try) and len(tr[0].body) == 1 and isinstance(tr[0].body[0], ast.Return)
          and ast.unparse(tr[0].body[0].value) == "int(user_input) - self._offset"
          and len(tr[0].handlers) == 1 and ast.unparse(tr[0].handlers[0].type) == "ValueError"
          and isinstance(tr[0].handlers[0].body[-1], ast.Return) and tr[0].handlers[0].body[-1].value.value is None
          and not tr[0].orelse and not tr[0].finalbody)
    if not ok:
        raise Unsupported("KeyPattern.translate_input_to_widget_id: " + ast.unparse(tr[0])[:160])
    return ("Definition t_default_pattern : key_pattern := {| kp_prefix := %s; kp_suffix := %s; kp_offset := (%d)%%Z |}.\n"
            "(* self._pattern.format(item_id + self._offset) for a pattern prefix{:d}suffix *)\n"
            "Definition t_get_widget_label (kp : key_pattern) (item_id : nat) : str :=\n"
            "  kp_prefix kp ++ dec (Z.of_nat item_id + kp_offset kp)%%Z ++ kp_suffix kp.\n"
            "(* try: return int(user_input) - self._offset  except ValueError: return None *)\n"
            "Definition t_translate_input_to_widget_id (kp : key_pattern) (user_input : str) : option Z :=\n"
            "  match parse_int user_input with Some z => Some (z - kp_offset kp)%%Z | None => None end."
            % (coq_str(pre), coq_str(suf), off))


# ---------------------------------------------------------------- signals
def signals():
    sig = parse("simpleline/event_loop/signals.py")
    ex = find_class(sig, "ExceptionSignal")
    init = find_func(ex, "__init__")
    prio = None
    for n in ast.walk(init):
        if isinstance(n, ast.Call) and ast.unparse(n.func) == "super().__init__":
            for kw in n.keywords:
                if kw.arg == "priority":
                    prio = ast.literal_eval(kw.value)
    if not isinstance(prio, int):
        raise Unsupported("ExceptionSignal priority")
    ab = find_class(parse("simpleline/event_loop/__init__.py"), "AbstractSignal")
    ai = find_func(ab, "__init__")
    d = [x.value for x in ai.args.defaults]
    if d != [0]:
        raise Unsupported("AbstractSignal default priority")
    lt = body_wo_doc(find_func(ab, "__lt__"))
    if not (len(lt) == 1 and ast.unparse(lt[0].value) == "self._priority < other.priority"):
        raise Unsupported("AbstractSignal.__lt__")
    return "Definition t_exception_priority : Z := (%d)%%Z.\nDefinition t_default_priority : Z := 0%%Z." % prio


def paging_constant():
    cls = find_class(parse("simpleline/render/screen/__init__.py"), "UIScreen")
    fn = find_func(cls, "_print_widget")
    for n in ast.walk(fn):
        if isinstance(n, ast.Assign) and isinstance(n.targets[0], ast.Name) and n.targets[0].id == "prompt_height" and isinstance(n.value, ast.Constant):
            return "Definition t_prompt_height : Z := (%d)%%Z." % n.value.value
    raise Unsupported("UIScreen._print_widget prompt_height")


def main():
    try:
        pc = prompt_constants()
        parts = [
            "(* GENERATED by tools/translate.py from %s — do not edit; regenerated on every build. *)" % repo,
            "From Coq Require Import ZArith NArith List Bool.",
            "From SL Require Import PyInt KeyPattern ScreenSem.",
            "Import ListNotations.",
            "Definition t_streq (a b : str) : bool := (length a =? length b)%nat && forallb (fun p => (fst p =? snd p)%N) (combine a b).",
            "\n".join("Definition t_%s : str := %s." % (k, coq_str(pc[k])) for k in
                      ("REFRESH", "CONTINUE", "QUIT", "HELP", "DEFAULT_MESSAGE", "ENTER", "QUIT_DESCRIPTION",
                       "CONTINUE_DESCRIPTION", "REFRESH_DESCRIPTION", "HELP_DESCRIPTION")),
            process_input_table(pc),
            input_manager_constants(),
            key_pattern(),
            signals(),
            paging_constant(),
        ]
        print("\n\n".join(parts))
    except Unsupported as e:
        print("(* GENERATED by tools/translate.py — TRANSLATION FAILED (fail-closed) *)")
        print('Definition translation_failed : nat := "%s".   (* deliberately ill-typed *)' % str(e).replace('"', "'"))
        sys.exit(0)


main()
