#!/usr/bin/env python3
"""translate.py <repo> — a small FAIL-CLOSED translator from the Python source to Gallina.

It covers pieces of /repo that are decision tables, constants or straight-line methods over dicts / lists / sets
(the second kind of tie the brief allows, used here in addition to the correspondence check):
  * InputManager._process_input         -> t_process_input : ret_val -> action     (the answer table of C07)
  * InputManager thresholds             -> t_error_threshold, t_threshold_exceeded
  * UserInputAction.was_successful      -> t_was_successful
  * InputManager.process_input          -> t_error_counter_update, t_process_input_after, t_is_input_expected
  * ScreenScheduler.process_input_result-> t_process_input_result : a program of ScreenSem (which branch for which action)
  * KeyPattern.__init__ defaults, get_widget_label, translate_input_to_widget_id (C14)
  * Prompt key constants; Prompt.__init__/set_message/add_option/update_option/add_*_option/remove_option/__str__ (C12)
  * signals.py: every signal class as a constructor of LoopSem.sigspec (t_sig_<Class>, default priorities) and
    every creation site (InputRequest.emit_*_input_ready_signal / run, SignalHandler.redraw / close / create_signal,
    ScreenScheduler.redraw / push_screen_modal, ExceptionSignal(self))
  * TicketMachine.__init__/take_ticket/check_ticket/mark_line_to_go       -> t_tm_*
  * ScreenStack.__init__/empty/size/append/pop/add_first, ScreenData, ScreenScheduler._get_last_screen,
    the ScreenData(...) / stack calls of schedule_screen / push_screen / push_screen_modal  -> t_ss_*, t_sched_*
  * EventQueue.__init__/empty/_put/enqueue/contains_source/enqueue_if_source_belongs/add_source/get/
    get_top_event_if_priority  -> t_eq_*;  MainLoop.enqueue_signal -> t_ml_enqueue_loop / t_ml_enqueue_signal
  * ScreenScheduler._spacer, the press-ENTER message and prompt_height of UIScreen._print_widget
The methods are compiled by MethodCompiler (a subset of Python: assignments to fields / subscripts, aliases of
containers, if / return / raise / with lock / one try shape / one for shape, dict list set queue primitives, calls
of already translated methods) into functions  self -> args -> t_res (result * self').
The output (coq/theories/gen/Translated.v) is regenerated from the CURRENT source on every build;
proofs/TranslatedEq.v proves each translated definition equal to the hand-written model.  Every statement the
translator does not recognise makes it stop with an error naming the construct: the generated file then does
not compile and the properties that depend on it (C07, C14, C02, C12, ...) report a broken proof obligation.
"""
import ast, sys, os

repo = sys.argv[1] if len(sys.argv) > 1 else "/repo"


class Unsupported(Exception):
    pass


def parse(rel):
    return ast.parse(open(os.path.join(repo, rel)).read())


def find_class(tree, name):
    for n in ast.walk(tree):
        if isinstance(n, ast.ClassDef) and n.name == name:
            return n
    raise Unsupported("class %s not found" % name)


def find_func(cls, name):
    for n in cls.body:
        if isinstance(n, ast.FunctionDef) and n.name == name:
            return n
    raise Unsupported("method %s.%s not found" % (cls.name, name))


def body_wo_doc(fn):
    b = fn.body
    if b and isinstance(b[0], ast.Expr) and isinstance(getattr(b[0], "value", None), ast.Constant) and isinstance(b[0].value.value, str):
        b = b[1:]
    return b


def coq_str(s):
    return "[" + "; ".join("%d%%N" % ord(c) for c in s) + "]"


def attr_path(e):
    if isinstance(e, ast.Attribute):
        return attr_path(e.value) + [e.attr]
    if isinstance(e, ast.Name):
        return [e.id]
    raise Unsupported("expression %s" % ast.dump(e))


# ---------------------------------------------------------------- Prompt constants
def prompt_constants():
    cls = find_class(parse("simpleline/render/prompt.py"), "Prompt")
    out = {}
    for n in cls.body:
        if isinstance(n, ast.Assign) and len(n.targets) == 1 and isinstance(n.targets[0], ast.Name):
            v = n.value
            if isinstance(v, ast.Call) and isinstance(v.func, ast.Name) and v.func.id == "N_" and len(v.args) == 1:
                v = v.args[0]
            if isinstance(v, ast.Constant) and isinstance(v.value, str):
                out[n.targets[0].id] = v.value
    for k in ("REFRESH", "CONTINUE", "QUIT", "HELP", "DEFAULT_MESSAGE", "ENTER", "QUIT_DESCRIPTION",
              "CONTINUE_DESCRIPTION", "REFRESH_DESCRIPTION", "HELP_DESCRIPTION"):
        if k not in out:
            raise Unsupported("Prompt.%s is not a string constant" % k)
    return out


# ---------------------------------------------------------------- InputManager._process_input
STATE = {"PROCESSED": "RProcessed", "PROCESSED_AND_REDRAW": "RRedraw", "PROCESSED_AND_CLOSE": "RClose", "DISCARDED": "RDiscarded"}
ACTION = {"NOOP": "ANoop", "REDRAW": "ARedraw", "CLOSE": "AClose", "QUIT": "AQuit", "INPUT_ERROR": "AError"}


def process_input_table(pc):
    cls = find_class(parse("simpleline/render/screen/input_manager.py"), "InputManager")
    fn = find_func(cls, "_process_input")
    body = body_wo_doc(fn)
    tests = []
    final = None
    seen_call = False
    for st in body:
        if isinstance(st, ast.ImportFrom):
            continue
        if isinstance(st, ast.Assign):
            # key = self._ui_screen.input(self._input_args, key)
            c = st.value
            if len(st.targets) == 1 and isinstance(st.targets[0], ast.Name) and st.targets[0].id == "key" and \
               isinstance(c, ast.Call) and attr_path(c.func) == ["self", "_ui_screen", "input"] and len(c.args) == 2 and \
               attr_path(c.args[0]) == ["self", "_input_args"] and isinstance(c.args[1], ast.Name) and c.args[1].id == "key" and not seen_call:
                seen_call = True
                continue
            raise Unsupported("_process_input: assignment " + ast.unparse(st))
        if isinstance(st, ast.If):
            t = st.test
            if isinstance(t, ast.Compare) and len(t.ops) == 1 and isinstance(t.left, ast.Name) and t.left.id == "key" and not st.orelse:
                rhs = t.comparators[0]
                if isinstance(t.ops[0], ast.Is) and isinstance(rhs, ast.Constant) and rhs.value is None:
                    # if key is None: log.warning(...)   — logging only
                    if all(isinstance(x, ast.Expr) and isinstance(x.value, ast.Call) and attr_path(x.value.func)[0] == "log" for x in st.body):
                        continue
                    raise Unsupported("_process_input: body of 'if key is None'")
                if isinstance(t.ops[0], ast.Eq) and len(st.body) == 1 and isinstance(st.body[0], ast.Return):
                    ret = attr_path(st.body[0].value)
                    if len(ret) != 2 or ret[0] != "UserInputAction" or ret[1] not in ACTION:
                        raise Unsupported("_process_input: return " + ast.unparse(st.body[0]))
                    p = attr_path(rhs)
                    if p[0] == "InputState" and len(p) == 2 and p[1] in STATE:
                        tests.append(("state", STATE[p[1]], ACTION[ret[1]]))
                        continue
                    if p[0] == "Prompt" and len(p) == 2 and p[1] in pc:
                        tests.append(("key", pc[p[1]], ACTION[ret[1]]))
                        continue
            raise Unsupported("_process_input: statement " + ast.unparse(st)[:80])
        if isinstance(st, ast.Return):
            ret = attr_path(st.value)
            if len(ret) == 2 and ret[0] == "UserInputAction" and ret[1] in ACTION and st is body[-1]:
                final = ACTION[ret[1]]
                continue
        raise Unsupported("_process_input: statement " + ast.unparse(st)[:80])
    if not seen_call or final is None:
        raise Unsupported("_process_input: unexpected shape")
    lines = ["Definition t_process_input (rv : ret_val) : action :="]
    for kind, what, act in tests:
        if kind == "state":
            lines.append("  if (match rv with %s => true | _ => false end) then %s else" % (what, act))
        else:
            lines.append("  if (match rv with RKey k => t_streq k %s | _ => false end) then %s else" % (coq_str(what), act))
    lines.append("  %s." % final)
    return "\n".join(lines)


def input_manager_constants():
    cls = find_class(parse("simpleline/render/screen/input_manager.py"), "InputManager")
    init = find_func(cls, "__init__")
    vals = {}
    for st in ast.walk(init):
        if isinstance(st, ast.Assign) and len(st.targets) == 1 and isinstance(st.targets[0], ast.Attribute) and \
           isinstance(st.value, ast.Constant):
            vals[st.targets[0].attr] = st.value.value
    if not isinstance(vals.get("_input_error_threshold"), int) or vals.get("_input_error_counter") != 0 or \
       vals.get("_skip_concurrency_check") is not False:
        raise Unsupported("InputManager.__init__ defaults")
    # input_error_threshold_exceeded:  errors = counter % threshold ; return errors == 0
    fn = None
    for n in cls.body:
        if isinstance(n, ast.FunctionDef) and n.name == "input_error_threshold_exceeded":
            fn = n
    b = body_wo_doc(fn)
    ok = (len(b) == 2 and isinstance(b[0], ast.Assign) and ast.unparse(b[0].value) == "self._input_error_counter % self._input_error_threshold"
          and isinstance(b[1], ast.Return) and ast.unparse(b[1].value) == "%s == 0" % b[0].targets[0].id)
    if not ok:
        raise Unsupported("input_error_threshold_exceeded: " + ast.unparse(fn)[:120])
    # was_successful
    ua = find_class(parse("simpleline/render/screen/input_manager.py"), "UserInputAction")
    ws = body_wo_doc(find_func(ua, "was_successful"))
    if not (len(ws) == 1 and isinstance(ws[0], ast.Return) and ast.unparse(ws[0].value) == "self != UserInputAction.INPUT_ERROR"):
        raise Unsupported("UserInputAction.was_successful")
    return ("Definition t_error_threshold : nat := %d.\n"
            "Definition t_threshold_exceeded (counter : nat) : bool := (Nat.modulo counter t_error_threshold =? 0)%%nat.\n"
            "Definition t_was_successful (a : action) : bool := match a with AError => false | _ => true end."
            % vals["_input_error_threshold"])


# ---------------------------------------------------------------- KeyPattern
def key_pattern():
    cls = find_class(parse("simpleline/render/containers.py"), "KeyPattern")
    init = find_func(cls, "__init__")
    names = [a.arg for a in init.args.args]
    defaults = [d.value for d in init.args.defaults if isinstance(d, ast.Constant)]
    if names != ["self", "pattern", "offset"] or len(defaults) != 2 or not isinstance(defaults[0], str) or not isinstance(defaults[1], int):
        raise Unsupported("KeyPattern.__init__ signature")
    pat, off = defaults
    if pat.count("{:d}") != 1 or "{" in pat.replace("{:d}", "") or "}" in pat.replace("{:d}", ""):
        raise Unsupported("KeyPattern default pattern %r is not prefix{:d}suffix" % pat)
    pre, suf = pat.split("{:d}")
    gl = body_wo_doc(find_func(cls, "get_widget_label"))
    if not (len(gl) == 1 and isinstance(gl[0], ast.Return) and ast.unparse(gl[0].value) == "self._pattern.format(item_id + self._offset)"):
        raise Unsupported("KeyPattern.get_widget_label: " + ast.unparse(gl[0])[:100])
    tr = body_wo_doc(find_func(cls, "translate_input_to_widget_id"))
    ok = (len(tr) == 1 and isinstance(tr[0], ast.Try) and len(tr[0].body) == 1 and isinstance(tr[0].body[0], ast.Return)
          and ast.unparse(tr[0].body[0].value) == "int(user_input) - self._offset"
          and len(tr[0].handlers) == 1 and ast.unparse(tr[0].handlers[0].type) == "ValueError"
          and isinstance(tr[0].handlers[0].body[-1], ast.Return) and tr[0].handlers[0].body[-1].value.value is None
          and not tr[0].orelse and not tr[0].finalbody)
    if not ok:
        raise Unsupported("KeyPattern.translate_input_to_widget_id: " + ast.unparse(tr[0])[:160])
    return ("Definition t_default_pattern : key_pattern := {| kp_prefix := %s; kp_suffix := %s; kp_offset := (%d)%%Z |}.\n"
            "(* self._pattern.format(item_id + self._offset) for a pattern prefix{:d}suffix *)\n"
            "Definition t_get_widget_label (kp : key_pattern) (item_id : nat) : str :=\n"
            "  kp_prefix kp ++ dec (Z.of_nat item_id + kp_offset kp)%%Z ++ kp_suffix kp.\n"
            "(* try: return int(user_input) - self._offset  except ValueError: return None *)\n"
            "Definition t_translate_input_to_widget_id (kp : key_pattern) (user_input : str) : option Z :=\n"
            "  match parse_int user_input with Some z => Some (z - kp_offset kp)%%Z | None => None end."
            % (coq_str(pre), coq_str(suf), off))


# ---------------------------------------------------------------- signals
def signals():
    sig = parse("simpleline/event_loop/signals.py")
    ex = find_class(sig, "ExceptionSignal")
    init = find_func(ex, "__init__")
    prio = None
    for n in ast.walk(init):
        if isinstance(n, ast.Call) and ast.unparse(n.func) == "super().__init__":
            for kw in n.keywords:
                if kw.arg == "priority":
                    prio = ast.literal_eval(kw.value)
    if not isinstance(prio, int):
        raise Unsupported("ExceptionSignal priority")
    ab = find_class(parse("simpleline/event_loop/__init__.py"), "AbstractSignal")
    ai = find_func(ab, "__init__")
    d = [x.value for x in ai.args.defaults]
    if d != [0]:
        raise Unsupported("AbstractSignal default priority")
    lt = body_wo_doc(find_func(ab, "__lt__"))
    if not (len(lt) == 1 and ast.unparse(lt[0].value) == "self._priority < other.priority"):
        raise Unsupported("AbstractSignal.__lt__")
    return "Definition t_exception_priority : Z := (%d)%%Z.\nDefinition t_default_priority : Z := 0%%Z." % prio


def paging_constant():
    cls = find_class(parse("simpleline/render/screen/__init__.py"), "UIScreen")
    fn = find_func(cls, "_print_widget")
    for n in ast.walk(fn):
        if isinstance(n, ast.Assign) and isinstance(n.targets[0], ast.Name) and n.targets[0].id == "prompt_height" and isinstance(n.value, ast.Constant):
            return "Definition t_prompt_height : Z := (%d)%%Z." % n.value.value
    raise Unsupported("UIScreen._print_widget prompt_height")


# ================================================================ a small compiler for straight-line methods
# Python methods over an object whose fields are dicts / lists / sets / counters are compiled to Gallina
# functions  self -> args -> t_res (result * self').  Everything outside the subset raises Unsupported.
PRELUDE = r'''(* ---- semantics of the Python primitives used by the translated methods ---- *)
Inductive t_exn := t_KeyError | t_IndexError | t_ExitMainLoop | t_ScreenStackEmptyException | t_Blocked.
Inductive t_res (A : Type) : Type := t_ok (a : A) | t_raise (e : t_exn).
Arguments t_ok {A} a.
Arguments t_raise {A} e.
Definition t_bind {A B : Type} (r : t_res A) (f : A -> t_res B) : t_res B :=
  match r with t_ok a => f a | t_raise e => t_raise e end.
Definition t_try {A : Type} (r : t_res A) (h : t_exn -> t_res A) : t_res A :=
  match r with t_ok a => t_ok a | t_raise e => h e end.
(* dict with nat keys: association list in insertion order; d[k] = v overwrites in place or appends *)
Fixpoint t_dict_mem {V : Type} (k : nat) (d : list (nat * V)) : bool :=
  match d with [] => false | (k', _) :: r => if (k' =? k)%nat then true else t_dict_mem k r end.
Fixpoint t_dict_get {V : Type} (k : nat) (d : list (nat * V)) : t_res V :=
  match d with [] => t_raise t_KeyError | (k', v) :: r => if (k' =? k)%nat then t_ok v else t_dict_get k r end.
Fixpoint t_dict_set {V : Type} (k : nat) (v : V) (d : list (nat * V)) : list (nat * V) :=
  match d with [] => [(k, v)] | (k', v') :: r => if (k' =? k)%nat then (k', v) :: r else (k', v') :: t_dict_set k v r end.
Fixpoint t_dict_del {V : Type} (k : nat) (d : list (nat * V)) : list (nat * V) :=
  match d with [] => [] | (k', v') :: r => if (k' =? k)%nat then r else (k', v') :: t_dict_del k r end.
Definition t_dict_keys {V : Type} (d : list (nat * V)) : list nat := map fst d.
(* list: l.pop() / l[-1] take the last element; l.pop(i) / l[i] / l.insert(i, x) for a literal i >= 0 *)
Definition t_list_is_empty {A : Type} (l : list A) : bool := match l with [] => true | _ => false end.
Definition t_list_pop_last {A : Type} (l : list A) : t_res (A * list A) :=
  match rev l with [] => t_raise t_IndexError | x :: r => t_ok (x, rev r) end.
Definition t_list_last {A : Type} (l : list A) : t_res A :=
  match rev l with [] => t_raise t_IndexError | x :: _ => t_ok x end.
Definition t_list_pop_at {A : Type} (i : nat) (l : list A) : t_res (A * list A) :=
  match nth_error l i with None => t_raise t_IndexError | Some x => t_ok (x, firstn i l ++ skipn (S i) l) end.
Definition t_list_nth {A : Type} (i : nat) (l : list A) : t_res A :=
  match nth_error l i with None => t_raise t_IndexError | Some x => t_ok x end.
Definition t_list_insert {A : Type} (i : nat) (x : A) (l : list A) : list A := firstn i l ++ x :: skipn i l.
(* set of object ids; a source is an object id or None = an object that was never registered anywhere *)
Definition t_set_mem (x : nat) (s : list nat) : bool := existsb (Nat.eqb x) s.
Definition t_set_add (x : nat) (s : list nat) : list nat := if t_set_mem x s then s else s ++ [x].
Definition t_src_in (src : option nat) (s : list nat) : bool :=
  match src with Some o => t_set_mem o s | None => false end.
(* dict with str keys: Prompt.v's dict (same discipline); str | None *)
Definition t_sdict_get (k : str) (d : Prompt.dict) : t_res str :=
  match Prompt.dict_get d k with Some v => t_ok v | None => t_raise t_KeyError end.
Definition t_truth_optstr (m : option str) : bool := match m with Some (_ :: _) => true | _ => false end.
Definition t_optstr_val (m : option str) : str := match m with Some s => s | None => [] end.
(* queue.PriorityQueue as the list of its entries: put appends; get removes the least entry under tuple comparison
   (LoopSem.min_entry / remove_entry: the library's behaviour is taken from the model, not translated) and blocks
   on an empty queue *)
Definition t_pq_get (l : list entry) : t_res (entry * list entry) :=
  match l with
  | [] => t_raise t_Blocked
  | e :: r => let m := min_entry e r in t_ok (m, remove_entry (snd (fst m)) l)
  end.
Definition t_action_eqb (a b : action) : bool :=
  match a, b with
  | ANoop, ANoop | ARedraw, ARedraw | AClose, AClose | AQuit, AQuit | AError, AError => true
  | _, _ => false
  end.'''

KNOWN_EXN = {"KeyError": "t_KeyError", "IndexError": "t_IndexError", "ExitMainLoop": "t_ExitMainLoop",
             "ScreenStackEmptyException": "t_ScreenStackEmptyException"}
COQ_RESERVED = set()


def gv(name):
    if not name.isidentifier():
        raise Unsupported("identifier %r" % name)
    return "v_" + name


def is_log_call(st):
    return isinstance(st, ast.Expr) and isinstance(st.value, ast.Call) and \
        isinstance(st.value.func, ast.Attribute) and isinstance(st.value.func.value, ast.Name) and st.value.func.value.id == "log"


def always_returns(stmts):
    if not stmts:
        return False
    st = stmts[-1]
    if isinstance(st, (ast.Return, ast.Raise)):
        return True
    if isinstance(st, ast.If):
        return always_returns(st.body) and always_returns(st.orelse)
    if isinstance(st, (ast.With, ast.Try)):
        return always_returns(st.body)
    return False


def contains_node(stmts, kinds):
    for st in stmts:
        for n in ast.walk(st):
            if isinstance(n, kinds):
                return True
    return False


class ClassCfg:
    """pyname: Python class; prefix: t_<prefix>_<method>; state_type: Gallina type of self;
       fields: ordered {python attr: (kind, depth)}; proj: {attr: format of the projection from {self}};
       build: format of the record from the state variables (keys = attr names without the leading _)"""
    def __init__(self, pyname, rel, prefix, state_type, fields, proj, build):
        self.pyname, self.rel, self.prefix, self.state_type = pyname, rel, prefix, state_type
        self.fields, self.proj, self.build = fields, proj, build
        self.consts = set()      # class-level string constants, translated as t_<NAME>
        self.cls = find_class(parse(rel), pyname)
        self.methods = {}        # python method name -> dict(g=gallina name, mode=..., params=[(name, type)], defaults={name: const})

    def svar(self, attr):
        return "s_" + attr.lstrip("_")

    def data_fields(self):
        return [a for a, (k, _) in self.fields.items() if k != "lock"]

    # the current value of every field lives in a Gallina variable; names = {attr: variable}.  Every write binds a
    # NEW variable (no shadowing: a term computed before a write keeps meaning the old value)
    def state_tuple(self, names):
        vs = [names[a] for a in self.data_fields()]
        return vs[0] if len(vs) == 1 else "(" + ", ".join(vs) + ")"

    def state_pat(self, names):
        vs = [names[a] for a in self.data_fields()]
        return vs[0] if len(vs) == 1 else "'(" + ", ".join(vs) + ")"

    def build_term(self, names):
        return self.build.format(**{a.lstrip("_"): names[a] for a in self.data_fields()})

    def unpack(self, term, names):
        """code that binds the variables `names` from a value of the state type"""
        return "".join("let %s := %s in " % (names[a], self.proj[a].format(self=term)) for a in self.data_fields())


CLASSES = {}     # python class name -> ClassCfg


class MethodCompiler:
    def __init__(self, cfg, name, ptypes, mode, rettype, param_attrs=None):
        self.cfg, self.name, self.mode, self.rettype = cfg, name, mode, rettype
        self.param_attrs = param_attrs or {}
        self.fn = find_func(cfg.cls, name)
        self.n = 0
        self.wrote = False
        a = self.fn.args
        if a.vararg or a.kwarg or a.kwonlyargs or a.posonlyargs:
            raise Unsupported("%s.%s: signature" % (cfg.pyname, name))
        names = [x.arg for x in a.args]
        if not names or names[0] != "self" or len(names) - 1 != len(ptypes):
            raise Unsupported("%s.%s: expected %d parameters, found (%s)" % (cfg.pyname, name, len(ptypes), ", ".join(names)))
        self.params = list(zip(names[1:], ptypes))
        self.defaults = {}
        for p, d in zip(names[len(names) - len(a.defaults):], a.defaults):
            self.defaults[p] = self.const(d, dict(self.params)[p])

    def where(self):
        return "%s.%s" % (self.cfg.pyname, self.name)

    def bad(self, what, node=None):
        txt = (": " + ast.unparse(node)[:100].replace("\n", " ")) if node is not None else ""
        raise Unsupported("%s: %s%s" % (self.where(), what, txt))

    def fresh(self, base="x"):
        self.n += 1
        return "%s%d" % (base, self.n)

    def const(self, e, ty=None):
        if isinstance(e, ast.Constant):
            if e.value is True:
                return "true"
            if e.value is False:
                return "false"
            if isinstance(e.value, int) and e.value >= 0:
                return "%d" % e.value
            if e.value is None and ty == "option str":
                return "None"
            if isinstance(e.value, str) and ty == "str":
                return coq_str(e.value)
            if isinstance(e.value, str) and ty == "option str":
                return "(Some %s)" % coq_str(e.value)
        if isinstance(e, ast.Name) and e.id in self.cfg.consts and ty == "str":
            return "t_" + e.id
        if isinstance(e, ast.Name) and e.id in self.cfg.consts and ty == "option str":
            return "(Some t_%s)" % e.id
        self.bad("constant", e)

    # ---- dict primitives by kind: 'dict' = nat keys (prelude), 'sdict' = str keys (Prompt.v's dict) ----
    def d_mem(self, kind, k, d):
        return ("t_dict_mem %s %s" if kind == "dict" else "Prompt.dict_mem %s %s") % ((k, d) if kind == "dict" else (d, k))

    def d_get(self, kind, k, d):
        return ("t_dict_get %s %s" if kind == "dict" else "t_sdict_get %s %s") % (k, d)

    def d_set(self, kind, k, v, d):
        return ("t_dict_set %s %s %s" % (k, v, d)) if kind == "dict" else ("Prompt.dict_set %s %s %s" % (d, k, v))

    def d_del(self, kind, k, d):
        return ("t_dict_del %s %s" % (k, d)) if kind == "dict" else ("Prompt.dict_pop %s %s" % (d, k))

    def fkind(self, attr):
        return self.cfg.fields[attr][0]

    def sv(self, env, attr):
        return env["$s"][attr]

    def new_sv(self, env, attr):
        v = self.fresh(self.cfg.svar(attr) + "_")
        return v, {**env, "$s": {**env["$s"], attr: v}}

    def new_all(self, env):
        names = {a: self.fresh(self.cfg.svar(a) + "_") for a in self.cfg.data_fields()}
        return names, {**env, "$s": names}

    # ---- places: (attr, [index terms]) -------------------------------------------------
    def place_of(self, e, env, k):
        """k(place, env) -> code; place = (attr, [idx terms]) or None when e is not a place"""
        if isinstance(e, ast.Attribute) and isinstance(e.value, ast.Name) and e.value.id == "self":
            if e.attr not in self.cfg.fields:
                self.bad("unknown field self.%s" % e.attr)
            return k((e.attr, []), env)
        if isinstance(e, ast.Name) and e.id in env and env[e.id][0] == "alias":
            return k(env[e.id][1], env)
        if isinstance(e, ast.Subscript):
            def k1(pl, env):
                if pl is None:
                    return k(None, env)
                kind, depth = self.cfg.fields[pl[0]]
                if kind not in ("dict", "sdict") or len(pl[1]) >= depth:
                    return k(None, env)
                return self.ex(e.slice, env, lambda i, env: k((pl[0], pl[1] + [i]), env))
            return self.place_of(e.value, env, k1)
        return k(None, env)

    def is_place_expr(self, e, env):
        res = []
        self.place_of(e, env, lambda pl, env: res.append(pl) or "")
        return res[0]

    def bind(self, term, k, base="x"):
        v = self.fresh(base)
        return "t_bind (%s) (fun %s =>\n  %s)" % (term, v, k(v))

    def read_place(self, pl, env, k):
        attr, idxs = pl
        kind, depth = self.cfg.fields[attr]
        if kind == "lock":
            self.bad("use of the lock %s" % attr)

        def go(cur, rest):
            if not rest:
                return k(cur, env)
            return self.bind(self.d_get(kind, rest[0], cur), lambda v: go(v, rest[1:]), "d")
        return go(self.sv(env, attr), idxs)

    def write_place(self, pl, val, env, k):
        attr, idxs = pl
        self.wrote = True
        s = self.sv(env, attr)
        n, env2 = self.new_sv(env, attr)
        if len(idxs) == 0:
            return "let %s := %s in\n  %s" % (n, val, k(env2))
        kind = self.fkind(attr)
        if len(idxs) == 1:
            return "let %s := %s in\n  %s" % (n, self.d_set(kind, idxs[0], val, s), k(env2))
        if len(idxs) == 2:
            return self.bind(self.d_get(kind, idxs[0], s),
                             lambda d: "let %s := %s in\n  %s" % (n, self.d_set(kind, idxs[0], "(%s)" % self.d_set(kind, idxs[1], val, d), s), k(env2)), "d")
        self.bad("assignment nested deeper than two subscripts")

    def place_kind(self, pl):
        kind, depth = self.cfg.fields[pl[0]]
        if kind in ("dict", "sdict"):
            return kind if len(pl[1]) < depth else "scalar"
        return kind

    # ---- expressions (CPS: k(term, env) -> code) ----------------------------------------
    def ex(self, e, env, k):
        if isinstance(e, ast.Constant):
            return k(self.const(e), env)
        if isinstance(e, ast.Name):
            if e.id not in env:
                self.bad("unknown name %s" % e.id)
            if env[e.id][0] == "val":
                return k(env[e.id][1], env)
            return self.read_place(env[e.id][1], env, k)
        if isinstance(e, ast.Attribute) and isinstance(e.value, ast.Name) and e.value.id == self.cfg.pyname and e.attr in self.cfg.consts:
            return k("t_" + e.attr, env)
        if isinstance(e, ast.Attribute) and isinstance(e.value, ast.Name) and e.value.id in env and env[e.value.id][0] == "val":
            ty = env[e.value.id][2]
            if (ty, e.attr) in self.param_attrs:
                return k("(%s %s)" % (self.param_attrs[(ty, e.attr)], env[e.value.id][1]), env)
            self.bad("attribute", e)
        if isinstance(e, ast.Subscript) and self.is_entry_expr(e.value, env) and isinstance(e.slice, ast.Constant) and \
           e.slice.value in (0, 1, 2) and not isinstance(e.slice.value, bool):
            proj = ["(fst (fst %s))", "(snd (fst %s))", "(snd %s)"][e.slice.value]
            return self.ex(e.value, env, lambda t, env: k(proj % t, env))
        if isinstance(e, ast.Compare) and len(e.ops) == 1 and isinstance(e.ops[0], ast.Eq) and \
           any(isinstance(x, ast.Name) and x.id in env and env[x.id][0] == "val" and env[x.id][2] == "Z" for x in (e.left, e.comparators[0])):
            return self.ex(e.left, env, lambda a, env: self.ex(e.comparators[0], env, lambda b, env: k("(%s =? %s)%%Z" % (a, b), env)))
        if isinstance(e, (ast.Attribute, ast.Subscript)):
            pl = self.is_place_expr(e, env)
            if pl is not None:
                return self.place_of(e, env, lambda pl, env: self.read_place(pl, env, k))
            if isinstance(e, ast.Subscript):           # l[-1] / l[i] on a list field
                base = self.is_place_expr(e.value, env)
                if base is not None and self.place_kind(base) == "list":
                    i = e.slice
                    if isinstance(i, ast.UnaryOp) and isinstance(i.op, ast.USub) and isinstance(i.operand, ast.Constant) and i.operand.value == 1:
                        return self.read_place(base, env, lambda l, env: self.bind("t_list_last %s" % l, lambda v: k(v, env)))
                    if isinstance(i, ast.Constant) and isinstance(i.value, int) and not isinstance(i.value, bool) and i.value >= 0:
                        return self.read_place(base, env, lambda l, env: self.bind("t_list_nth %d %s" % (i.value, l), lambda v: k(v, env)))
            self.bad("expression", e)
        if isinstance(e, ast.Tuple):
            def go(items, acc, env):
                if not items:
                    return k("(" + ", ".join(acc) + ")", env)
                return self.ex(items[0], env, lambda t, env: go(items[1:], acc + [t], env))
            return go(list(e.elts), [], env)
        if isinstance(e, ast.Dict):
            def god(items, acc, env):
                if not items:
                    return k(acc, env)
                (kk, vv) = items[0]
                if kk is None:
                    self.bad("dict unpacking", e)
                return self.ex(kk, env, lambda tk, env: self.ex(vv, env, lambda tv, env: god(items[1:], "(t_dict_set %s %s %s)" % (tk, tv, acc), env)))
            return god(list(zip(e.keys, e.values)), "[]", env)
        if isinstance(e, ast.Compare) and len(e.ops) == 1 and isinstance(e.ops[0], (ast.In, ast.NotIn)):
            neg = isinstance(e.ops[0], ast.NotIn)
            pl = self.is_place_expr(e.comparators[0], env)
            if pl is None:
                self.bad("membership in something that is not a field", e)
            kind = self.place_kind(pl)
            left = e.left
            opt = isinstance(left, ast.Name) and left.id in env and env[left.id][0] == "val" and env[left.id][2].startswith("option")

            def kc(tl, env):
                def kr(tc, env):
                    if kind in ("dict", "sdict"):
                        t = self.d_mem(kind, tl, tc)
                    elif kind == "set":
                        t = ("t_src_in %s %s" if opt else "t_set_mem %s %s") % (tl, tc)
                    else:
                        self.bad("membership in a %s" % kind, e)
                    return k("(negb (%s))" % t if neg else "(%s)" % t, env)
                return self.place_of(e.comparators[0], env, lambda pl, env: self.read_place(pl, env, kr))
            return self.ex(left, env, kc)
        if isinstance(e, ast.UnaryOp) and isinstance(e.op, ast.Not):
            return self.truth(e.operand, env, lambda t, env: k("(negb %s)" % t, env))
        if isinstance(e, ast.BinOp) and isinstance(e.op, ast.Add):
            return self.ex(e.left, env, lambda a, env: self.ex(e.right, env, lambda b, env: k("(%s + %s)%%nat" % (a, b), env)))
        if isinstance(e, ast.Call):
            return self.call(e, env, k)
        self.bad("expression", e)

    def is_entry_expr(self, e, env):
        """an expression whose value is a queue entry (priority, counter, signal)"""
        if isinstance(e, ast.Name) and e.id in env and env[e.id][0] == "val" and env[e.id][2] == "entry":
            return True
        if isinstance(e, ast.Call) and isinstance(e.func, ast.Attribute) and e.func.attr == "get" and not e.args and not e.keywords:
            pl = self.is_place_expr(e.func.value, env)
            return pl is not None and self.place_kind(pl) == "pqueue"
        return False

    def truth(self, e, env, k):
        """bool(e)"""
        pl = None
        if isinstance(e, (ast.Attribute, ast.Subscript)) or (isinstance(e, ast.Name) and e.id in env and env[e.id][0] == "alias"):
            pl = self.is_place_expr(e, env)
        if pl is not None and self.place_kind(pl) == "list":
            return self.place_of(e, env, lambda pl, env: self.read_place(pl, env, lambda l, env: k("(negb (t_list_is_empty %s))" % l, env)))
        if pl is not None and self.place_kind(pl) == "sdict":
            return self.place_of(e, env, lambda pl, env: self.read_place(pl, env, lambda l, env: k("(negb (t_list_is_empty %s))" % l, env)))
        if pl is not None and self.place_kind(pl) == "optstr":
            return self.place_of(e, env, lambda pl, env: self.read_place(pl, env, lambda l, env: k("(t_truth_optstr %s)" % l, env)))
        if pl is not None and self.place_kind(pl) != "scalar":
            self.bad("truth value of a %s" % self.place_kind(pl), e)
        return self.ex(e, env, lambda t, env: k("(%s : bool)" % t, env))

    def args_of(self, call, m, env, k):
        """bind the arguments of a call of a translated method m (dict from cfg.methods); k(list of terms, env)"""
        if any(kw.arg is None for kw in call.keywords):
            self.bad("**kwargs", call)
        given = {}
        pnames = [p for p, _ in m["params"]]
        if len(call.args) > len(pnames):
            self.bad("too many arguments", call)
        for p, a in zip(pnames, call.args):
            given[p] = a
        for kw in call.keywords:
            if kw.arg not in pnames or kw.arg in given:
                self.bad("keyword argument %s" % kw.arg, call)
            given[kw.arg] = kw.value

        def go(ps, acc, env):
            if not ps:
                return k(acc, env)
            p = ps[0]
            if p in given:
                return self.ex(given[p], env, lambda t, env: go(ps[1:], acc + [t], env))
            if p in m["defaults"]:
                return go(ps[1:], acc + ["%s_default_%s" % (m["g"], p)], env)
            self.bad("missing argument %s" % p, call)
        return go(pnames, [], env)

    def call_method(self, ocfg, self_term, rebind, call, mname, env, k):
        """call of a translated method of class ocfg on the object whose state is self_term(env);
           rebind(term, env) -> (code prefix that stores the new state of that object, new env)"""
        if mname not in ocfg.methods:
            self.bad("call of the untranslated method %s.%s" % (ocfg.pyname, mname), call)
        m = ocfg.methods[mname]

        def ka(args, env):
            app = " ".join([m["g"], self_term(env)] + ["(%s)" % a for a in args])
            if m["mode"] == "pure":
                return self.bind(app, lambda v: k(v, env), "r")
            if m["mode"] == "init":
                self.bad("call of __init__", call)
            self.wrote = True

            def after(v, st_term, val_term):
                code, env2 = rebind(st_term, env)
                return code + "\n  " + k(val_term, env2)
            if m["mode"] == "state":
                return self.bind(app, lambda v: after(v, v, "tt"), "st")
            return self.bind(app, lambda v: after(v, "(snd %s)" % v, "(fst %s)" % v), "r")
        return self.args_of(call, m, env, ka)

    def call(self, e, env, k):
        f = e.func
        # len(list field) / next(counter field)
        if isinstance(f, ast.Name) and f.id in ("len", "next") and len(e.args) == 1 and not e.keywords:
            pl = self.is_place_expr(e.args[0], env)
            if pl is None:
                self.bad("call", e)
            kind = self.place_kind(pl)
            if f.id == "len" and kind == "list":
                return self.place_of(e.args[0], env, lambda pl, env: self.read_place(pl, env, lambda l, env: k("(length %s)" % l, env)))
            if f.id == "next" and kind == "count" and not pl[1]:
                s = self.sv(env, pl[0])
                v = self.fresh("n")
                self.wrote = True
                n, env2 = self.new_sv(env, pl[0])
                return "let %s := %s in let %s := S %s in\n  %s" % (v, s, n, s, k(v, env2))
            self.bad("call", e)
        if not isinstance(f, ast.Attribute):
            self.bad("call", e)
        # self.method(...)
        if isinstance(f.value, ast.Name) and f.value.id == "self":
            def rebind_self(t, env):
                names, env2 = self.new_all(env)
                return self.cfg.unpack(t, names), env2
            return self.call_method(self.cfg, lambda env: self.cfg.build_term(env["$s"]), rebind_self, e, f.attr, env, k)
        pl = self.is_place_expr(f.value, env)
        if pl is None:
            self.bad("call", e)
        kind = self.place_kind(pl)
        if kind.startswith("obj:") and not pl[1]:
            attr = pl[0]

            def rebind_obj(t, env):
                n, env2 = self.new_sv(env, attr)
                return "let %s := %s in" % (n, t), env2
            return self.call_method(CLASSES[kind[4:]], lambda env: self.sv(env, attr), rebind_obj, e, f.attr, env, k)
        if e.keywords:
            self.bad("keyword arguments", e)
        meth, na = f.attr, len(e.args)

        def with_args(k2):
            def go(items, acc, env):
                if not items:
                    return k2(acc, env)
                return self.ex(items[0], env, lambda t, env: go(items[1:], acc + [t], env))
            return go(list(e.args), [], env)

        def on_place(env, k3):      # k3(pl, current value, env)
            return self.place_of(f.value, env, lambda pl, env: self.read_place(pl, env, lambda cur, env: k3(pl, cur, env)))
        if kind in ("dict", "sdict") and meth == "pop" and na == 1:
            return with_args(lambda a, env: on_place(env, lambda pl, d, env: self.bind(
                self.d_get(kind, a[0], d), lambda v: self.write_place(pl, "(%s)" % self.d_del(kind, a[0], d), env, lambda env: k(v, env)), "v")))
        if kind == "sdict" and meth == "pop" and na == 2 and isinstance(e.args[1], ast.Constant) and e.args[1].value is None:
            # d.pop(k, None): the value or None, never KeyError
            return self.ex(e.args[0], env, lambda a, env: on_place(env, lambda pl, d, env: self.write_place(
                pl, "(%s)" % self.d_del(kind, a, d), env, lambda env: k("(Prompt.dict_get %s %s)" % (d, a), env))))
        if kind == "list" and meth == "append" and na == 1:
            return with_args(lambda a, env: on_place(env, lambda pl, l, env: self.write_place(pl, "(%s ++ [%s])" % (l, a[0]), env, lambda env: k("tt", env))))
        if kind == "list" and meth == "pop" and na == 0:
            return on_place(env, lambda pl, l, env: self.bind(
                "t_list_pop_last %s" % l, lambda r: self.write_place(pl, "(snd %s)" % r, env, lambda env: k("(fst %s)" % r, env)), "r"))
        if kind == "list" and meth == "pop" and na == 1 and isinstance(e.args[0], ast.Constant) and isinstance(e.args[0].value, int) \
           and not isinstance(e.args[0].value, bool) and e.args[0].value >= 0:
            i = e.args[0].value
            return on_place(env, lambda pl, l, env: self.bind(
                "t_list_pop_at %d %s" % (i, l), lambda r: self.write_place(pl, "(snd %s)" % r, env, lambda env: k("(fst %s)" % r, env)), "r"))
        if kind == "list" and meth == "insert" and na == 2 and isinstance(e.args[0], ast.Constant) and isinstance(e.args[0].value, int) \
           and not isinstance(e.args[0].value, bool) and e.args[0].value >= 0:
            i = e.args[0].value
            return self.ex(e.args[1], env, lambda x, env: on_place(env, lambda pl, l, env: self.write_place(
                pl, "(t_list_insert %d %s %s)" % (i, x, l), env, lambda env: k("tt", env))))
        if kind == "set" and meth == "add" and na == 1:
            return with_args(lambda a, env: on_place(env, lambda pl, s, env: self.write_place(pl, "(t_set_add %s %s)" % (a[0], s), env, lambda env: k("tt", env))))
        if kind == "pqueue" and meth == "put" and na == 1:
            return with_args(lambda a, env: on_place(env, lambda pl, q, env: self.write_place(pl, "(%s ++ [%s])" % (q, a[0]), env, lambda env: k("tt", env))))
        if kind == "pqueue" and meth == "get" and na == 0:
            return on_place(env, lambda pl, q, env: self.bind(
                "t_pq_get %s" % q, lambda r: self.write_place(pl, "(snd %s)" % r, env, lambda env: k("(fst %s)" % r, env)), "r"))
        if kind == "pqueue" and meth == "empty" and na == 0:
            return on_place(env, lambda pl, q, env: k("(t_list_is_empty %s)" % q, env))
        self.bad("call of %s on a %s" % (meth, kind), e)

    # ---- statements (CPS: k(env) -> code of what follows when the block falls through) -----
    def ret(self, term, env):
        if self.mode == "pure":
            if term is None:
                self.bad("return without a value")
            return "t_ok %s" % term
        if self.mode == "state":
            if term is not None:
                self.bad("return of a value from a method translated as returning nothing")
            return "t_ok %s" % self.cfg.build_term(env["$s"])
        if term is None:
            self.bad("return without a value")
        return "t_ok (%s, %s)" % (term, self.cfg.build_term(env["$s"]))

    def blk(self, stmts, env, k):
        if not stmts:
            return k(env)
        st, rest = stmts[0], list(stmts[1:])

        def cont(env):
            return self.blk(rest, env, k)
        dead = lambda env: self.bad("statement after the end of the function is reachable")
        if is_log_call(st):
            return cont(env)
        if isinstance(st, ast.Return):
            if rest:
                self.bad("statements after return", rest[0])
            if st.value is None:
                return self.ret(None, env)
            if self.mode == "vs_opt":
                # the method returns a value or None
                if isinstance(st.value, ast.Constant) and st.value.value is None:
                    return self.ret("None", env)
                return self.ex(st.value, env, lambda t, env: self.ret("(Some %s)" % t, env))
            return self.ex(st.value, env, lambda t, env: self.ret(t, env))
        if isinstance(st, ast.Raise):
            if rest:
                self.bad("statements after raise", rest[0])
            return "t_raise %s" % self.exn_of(st)
        if isinstance(st, ast.Expr) and isinstance(st.value, ast.Call):
            return self.ex(st.value, env, lambda t, env: cont(env))
        if isinstance(st, ast.Assign) and len(st.targets) == 1:
            tg = st.targets[0]
            if isinstance(tg, ast.Name):
                pl = self.is_place_expr(st.value, env) if isinstance(st.value, (ast.Attribute, ast.Subscript, ast.Name)) else None
                if pl is not None and self.place_kind(pl) in ("dict", "sdict", "list", "set"):
                    # a reference to a mutable container: an alias, not a copy
                    return self.place_of(st.value, env, lambda pl, env: cont({**env, tg.id: ("alias", pl)}))
                if tg.id in env and env[tg.id][0] == "alias":
                    self.bad("re-assignment of an alias", st)
                v = gv(tg.id)
                ty = "entry" if self.is_entry_expr(st.value, env) else "?"
                return self.ex(st.value, env, lambda t, env: "let %s := %s in\n  %s" % (v, t, cont({**env, tg.id: ("val", v, ty)})))
            pl = self.is_place_expr(tg, env)
            if pl is not None:
                return self.ex(st.value, env, lambda t, env: self.place_of(tg, env, lambda pl, env: self.write_place(pl, t, env, cont)))
            self.bad("assignment", st)
        if isinstance(st, ast.AugAssign) and isinstance(st.op, ast.Add):
            pl = self.is_place_expr(st.target, env)
            if pl is not None and self.place_kind(pl) == "int" and not pl[1]:
                return self.ex(st.value, env, lambda t, env: self.write_place(pl, "(%s + %s)%%nat" % (self.sv(env, pl[0]), t), env, cont))
            self.bad("augmented assignment", st)
        if isinstance(st, ast.With):
            if len(st.items) == 1 and st.items[0].optional_vars is None:
                pl = self.is_place_expr(st.items[0].context_expr, env)
                if pl is not None and self.cfg.fields[pl[0]][0] == "lock":
                    return self.blk(list(st.body) + rest, env, k)
            self.bad("with", st)
        if isinstance(st, ast.If) and all(is_log_call(x) for x in list(st.body) + list(st.orelse)):
            # only logging depends on the condition: evaluate it (it may raise) and go on
            return self.truth(st.test, env, lambda c, env: cont(env))
        if isinstance(st, ast.If):
            tr, er = always_returns(st.body), always_returns(st.orelse)

            def kt(c, env):
                if tr and er:
                    if rest:
                        self.bad("statements after an if that always returns", rest[0])
                    return "if %s\n  then %s\n  else %s" % (c, self.blk(st.body, env, dead), self.blk(st.orelse, env, dead))
                if tr:
                    return "if %s\n  then %s\n  else %s" % (c, self.blk(st.body, env, dead), self.blk(list(st.orelse) + rest, env, k))
                if er:
                    return "if %s\n  then %s\n  else %s" % (c, self.blk(list(st.body) + rest, env, k), self.blk(st.orelse, env, dead))
                # both branches fall through: they may only change the object's state
                if contains_node(list(st.body) + list(st.orelse), (ast.Return, ast.Raise)):
                    self.bad("if with a branch that returns only sometimes", st)
                for n in list(st.body) + list(st.orelse):
                    for a in ast.walk(n):
                        # a name first bound inside a branch is not visible after the if (its use there is
                        # "unknown name"); re-binding a visible name inside a branch is not supported
                        if isinstance(a, (ast.Assign, ast.AugAssign, ast.For)):
                            tgs = a.targets if isinstance(a, ast.Assign) else [a.target]
                            if any(isinstance(t, ast.Name) and t.id in env for t in tgs):
                                self.bad("re-assignment of a local variable inside a conditional", a)
                join = lambda env2: "t_ok %s" % self.cfg.state_tuple(env2["$s"])
                v = self.fresh("st")
                names, env3 = self.new_all(env)
                return "t_bind (if %s\n  then %s\n  else %s) (fun %s => let %s := %s in\n  %s)" % (
                    c, self.blk(st.body, env, join), self.blk(st.orelse, env, join), v, self.cfg.state_pat(names), v, cont(env3))
            return self.truth(st.test, env, kt)
        if isinstance(st, ast.For):
            # for K in P: P[K] = C      (P a dict: every value becomes C)
            if st.orelse or not isinstance(st.target, ast.Name) or len(st.body) != 1:
                self.bad("for loop", st)
            b = st.body[0]
            pl = self.is_place_expr(st.iter, env)
            if pl is None or self.place_kind(pl) != "dict" or not isinstance(b, ast.Assign) or len(b.targets) != 1 or \
               not isinstance(b.targets[0], ast.Subscript) or not isinstance(b.targets[0].slice, ast.Name) or \
               b.targets[0].slice.id != st.target.id or self.is_place_expr(b.targets[0].value, env) != pl or \
               not isinstance(b.value, ast.Constant):
                self.bad("for loop", st)
            c = self.const(b.value)
            kv = gv(st.target.id)
            return self.place_of(st.iter, env, lambda pl, env: self.read_place(pl, env, lambda d, env: self.write_place(
                pl, "(fold_left (fun acc %s => t_dict_set %s %s acc) (t_dict_keys %s) %s)" % (kv, kv, c, d, d), env, cont)))
        if isinstance(st, ast.Try):
            # try: <if/return only>  except E [as e]: raise F(..) [from e]
            if rest or st.orelse or st.finalbody or not always_returns(st.body) or \
               contains_node(st.body, (ast.Assign, ast.AugAssign, ast.Expr, ast.For, ast.While, ast.With, ast.Try)):
                self.bad("try statement", st)
            cases = []
            for h in st.handlers:
                if not isinstance(h.type, ast.Name) or h.type.id not in KNOWN_EXN or len(h.body) != 1 or not isinstance(h.body[0], ast.Raise):
                    self.bad("exception handler", h)
                r = h.body[0]
                cases.append("| %s => t_raise %s" % (KNOWN_EXN[h.type.id], KNOWN_EXN[h.type.id] if r.exc is None else self.exn_of(r)))
            return "t_try (%s)\n  (fun e => match e with %s | _ => t_raise e end)" % (self.blk(st.body, env, dead), " ".join(cases))
        self.bad("statement", st)

    def exn_of(self, st):
        x = st.exc
        if isinstance(x, ast.Call):
            x = x.func
        if isinstance(x, ast.Name) and x.id in KNOWN_EXN:
            return KNOWN_EXN[x.id]
        self.bad("raise", st)

    def compile(self):
        cfg = self.cfg
        g = "t_%s_%s" % (cfg.prefix, self.name.lstrip("_") if not self.name.startswith("__") else self.name.strip("_"))
        env = {p: ("val", gv(p), ty) for p, ty in self.params}
        env["$s"] = {a: cfg.svar(a) for a in cfg.data_fields()}
        body = body_wo_doc(self.fn)

        def end(env):
            if self.mode != "state":
                self.bad("the end of the method is reachable (implicit return None)")
            return self.ret(None, env)
        if self.mode == "init":
            # __init__ with parameters: every field is assigned exactly once, in straight-line code
            seen = []
            for st in body:
                if not (isinstance(st, ast.Assign) and len(st.targets) == 1 and isinstance(st.targets[0], ast.Attribute)
                        and ast.unparse(st.targets[0].value) == "self" and st.targets[0].attr in cfg.fields and st.targets[0].attr not in seen):
                    self.bad("__init__ statement", st)
                seen.append(st.targets[0].attr)
            if set(seen) != set(cfg.data_fields()):
                self.bad("__init__ does not initialise every field")
            self.mode = "state"
            env["$s"] = {a: "field_%s_read_before_assignment" % a for a in cfg.data_fields()}
            code = self.blk(body, env, end)
            out = ["Definition %s_default_%s : %s := %s." % (g, p, ty, self.defaults[p]) for p, ty in self.params if p in self.defaults]
            out.append("Definition %s%s : t_res (%s) :=\n  %s." % (g, "".join(" (%s : %s)" % (gv(p), ty) for p, ty in self.params), cfg.state_type, code))
            cfg.methods[self.name] = dict(g=g, mode="init", params=self.params, defaults=self.defaults)
            return "\n".join(out)
        code = self.blk(body, env, end)
        if self.mode == "pure" and self.wrote:
            self.bad("a method translated as pure changes the object")
        out = []
        for p, ty in self.params:
            if p in self.defaults:
                out.append("Definition %s_default_%s : %s := %s." % (g, p, ty, self.defaults[p]))
        res = {"pure": self.rettype, "state": cfg.state_type, "vs": "%s * %s" % (self.rettype, cfg.state_type),
               "vs_opt": "option (%s) * %s" % (self.rettype, cfg.state_type)}[self.mode]
        out.append("Definition %s (self : %s)%s : t_res (%s) :=\n  %s%s." % (
            g, cfg.state_type, "".join(" (%s : %s)" % (gv(p), ty) for p, ty in self.params), res,
            "".join("let %s := %s in\n  " % (cfg.svar(a), cfg.proj[a].format(self="self")) for a in cfg.data_fields()), code))
        cfg.methods[self.name] = dict(g=g, mode="vs" if self.mode == "vs_opt" else self.mode, params=self.params, defaults=self.defaults)
        return "\n".join(out)


INIT_CTORS = {"dict": ("{}", "[]"), "list": ("[]", "[]"), "set": ("set()", "[]"), "pqueue": ("PriorityQueue()", "[]"),
              "count": ("count()", "0"), "int": ("0", "0"), "lock": ("Lock()", None)}


def compile_init(cfg):
    """__init__ assigns every configured field its empty value, and nothing else"""
    fn = find_func(cfg.cls, "__init__")
    if [a.arg for a in fn.args.args] != ["self"]:
        raise Unsupported("%s.__init__: signature" % cfg.pyname)
    seen = {}
    for st in body_wo_doc(fn):
        if not (isinstance(st, ast.Assign) and len(st.targets) == 1 and attr_path(st.targets[0])[0] == "self" and len(attr_path(st.targets[0])) == 2):
            raise Unsupported("%s.__init__: %s" % (cfg.pyname, ast.unparse(st)[:80]))
        a = st.targets[0].attr
        if a not in cfg.fields or a in seen:
            raise Unsupported("%s.__init__: field %s" % (cfg.pyname, a))
        py, coq = INIT_CTORS[cfg.fields[a][0]]
        if ast.unparse(st.value) != py:
            raise Unsupported("%s.__init__: %s" % (cfg.pyname, ast.unparse(st)[:80]))
        seen[a] = coq
    if set(seen) != set(cfg.fields):
        raise Unsupported("%s.__init__: fields %s not initialised" % (cfg.pyname, sorted(set(cfg.fields) - set(seen))))
    return "Definition t_%s_init : %s := %s." % (cfg.prefix, cfg.state_type, cfg.build.format(**{a.lstrip("_"): seen[a] for a in cfg.data_fields()}))


def compile_class(cfg, methods):
    CLASSES[cfg.pyname] = cfg
    return "\n".join(MethodCompiler(cfg, *m).compile() for m in methods)


# ---------------------------------------------------------------- TicketMachine
def ticket_machine():
    cfg = ClassCfg("TicketMachine", "simpleline/event_loop/ticket_machine.py", "tm", "tmachine",
                   {"_lines": ("dict", 2), "_counter": ("int", 0)},
                   {"_lines": "(tm_lines {self})", "_counter": "(tm_counter {self})"},
                   "{{| tm_lines := {lines}; tm_counter := {counter} |}}")
    return compile_init(cfg) + "\n" + compile_class(cfg, [
        ("take_ticket", ["nat"], "vs", "nat"),
        ("check_ticket", ["nat", "nat"], "vs", "bool"),
        ("mark_line_to_go", ["nat"], "state", None),
    ])


# ---------------------------------------------------------------- ScreenStack / ScreenData / _get_last_screen
def screen_stack():
    cfg = ClassCfg("ScreenStack", "simpleline/render/screen_stack.py", "ss", "list sdata",
                   {"_screens": ("list", 1)}, {"_screens": "{self}"}, "{screens}")
    out = [compile_init(cfg), compile_class(cfg, [
        ("empty", [], "pure", "bool"),
        ("size", [], "pure", "nat"),
        ("append", ["sdata"], "state", None),
        ("pop", ["bool"], "vs", "sdata"),
        ("add_first", ["sdata"], "state", None),
    ])]
    # ScreenData.__init__(self, ui_screen, args=None, execute_new_loop=False): three fields
    sd = find_class(parse("simpleline/render/screen_stack.py"), "ScreenData")
    init = find_func(sd, "__init__")
    names = [a.arg for a in init.args.args]
    if len(names) != 4 or names[0] != "self" or init.args.vararg or init.args.kwarg or init.args.kwonlyargs or len(init.args.defaults) != 2:
        raise Unsupported("ScreenData.__init__: signature")
    d_args, d_loop = init.args.defaults
    if not (isinstance(d_args, ast.Constant) and d_args.value is None):
        raise Unsupported("ScreenData.__init__: default of args is not None")
    if not (isinstance(d_loop, ast.Constant) and isinstance(d_loop.value, bool)):
        raise Unsupported("ScreenData.__init__: default of execute_new_loop is not a bool")
    fmap = {"ui_screen": "sd_scr", "args": "sd_args", "execute_new_loop": "sd_modal"}
    got = {}
    for st in body_wo_doc(init):
        if not (isinstance(st, ast.Assign) and len(st.targets) == 1 and isinstance(st.value, ast.Name) and st.value.id in names[1:]
                and attr_path(st.targets[0])[0] == "self" and len(attr_path(st.targets[0])) == 2 and st.targets[0].attr in fmap
                and st.targets[0].attr not in got):
            raise Unsupported("ScreenData.__init__: " + ast.unparse(st)[:80])
        got[st.targets[0].attr] = gv(st.value.id)
    if set(got) != set(fmap):
        raise Unsupported("ScreenData.__init__: fields")
    out.append("(* ScreenData(ui_screen, args=None, execute_new_loop=False); id = the identity of the new object; args: an id, 0 = None *)\n"
               "Definition t_ScreenData_default_args : nat := 0.\n"
               "Definition t_ScreenData_default_execute_new_loop : bool := %s.\n"
               "Definition t_ScreenData (id : nat) (%s : nat) (%s : nat) (%s : bool) : sdata :=\n"
               "  {| sd_id := id; %s |}." % (
                   "true" if d_loop.value else "false", gv(names[1]), gv(names[2]), gv(names[3]),
                   "; ".join("%s := %s" % (fmap[a], got[a]) for a in ("ui_screen", "args", "execute_new_loop"))))
    # the ScreenData(...) calls of the scheduler's schedule / push / push_modal
    sched = find_class(parse("simpleline/render/screen_scheduler.py"), "ScreenScheduler")
    for meth in ("schedule_screen", "push_screen", "push_screen_modal"):
        fn = find_func(sched, meth)
        pn = [a.arg for a in fn.args.args]
        if pn != ["self", "ui_screen", "args"] or len(fn.args.defaults) != 1 or not (isinstance(fn.args.defaults[0], ast.Constant) and fn.args.defaults[0].value is None):
            raise Unsupported("ScreenScheduler.%s: signature" % meth)
        calls = [n for n in ast.walk(fn) if isinstance(n, ast.Call) and isinstance(n.func, ast.Name) and n.func.id == "ScreenData"]
        if len(calls) != 1 or calls[0].keywords or not (2 <= len(calls[0].args) <= 3):
            raise Unsupported("ScreenScheduler.%s: ScreenData(...) call" % meth)
        a = calls[0].args
        if not (isinstance(a[0], ast.Name) and a[0].id == "ui_screen" and isinstance(a[1], ast.Name) and a[1].id == "args"):
            raise Unsupported("ScreenScheduler.%s: %s" % (meth, ast.unparse(calls[0])))
        if len(a) == 3:
            if not (isinstance(a[2], ast.Constant) and isinstance(a[2].value, bool)):
                raise Unsupported("ScreenScheduler.%s: %s" % (meth, ast.unparse(calls[0])))
            third = "true" if a[2].value else "false"
        else:
            third = "t_ScreenData_default_execute_new_loop"
        # which ScreenStack method receives it
        recv = [n for n in ast.walk(fn) if isinstance(n, ast.Call) and isinstance(n.func, ast.Attribute) and
                attr_path(n.func)[:2] == ["self", "_screen_stack"]]
        if len(recv) != 1 or len(recv[0].args) != 1 or recv[0].func.attr not in ("append", "add_first"):
            raise Unsupported("ScreenScheduler.%s: use of the screen stack" % meth)
        out.append("Definition t_sched_%s_data (id v_ui_screen v_args : nat) : sdata := t_ScreenData id v_ui_screen v_args %s.\n"
                   "Definition t_sched_%s_stack (stack : list sdata) (d : sdata) : t_res (list sdata) := t_ss_%s stack d."
                   % (meth, third, meth, recv[0].func.attr))
    # ScreenScheduler._get_last_screen
    scfg = ClassCfg("ScreenScheduler", "simpleline/render/screen_scheduler.py", "sched", "list sdata",
                    {"_screen_stack": ("obj:ScreenStack", 0)}, {"_screen_stack": "{self}"}, "{screen_stack}")
    out.append(compile_class(scfg, [("_get_last_screen", [], "vs", "sdata")]))
    return "\n".join(out)


# ---------------------------------------------------------------- EventQueue + MainLoop.enqueue_signal
def event_queue():
    cfg = ClassCfg("EventQueue", "simpleline/event_loop/event_queue.py", "eq", "equeue",
                   {"_queue": ("pqueue", 0), "_counter": ("count", 0), "_contained_screens": ("set", 0), "_lock": ("lock", 0)},
                   {"_queue": "(eq_entries {self})", "_counter": "(eq_counter {self})", "_contained_screens": "(eq_sources {self})"},
                   "{{| eq_entries := {queue}; eq_counter := {counter}; eq_sources := {contained_screens} |}}")
    pa = {("signal", "priority"): "sg_prio", ("signal", "source"): "sg_src"}
    out = [compile_init(cfg), compile_class(cfg, [
        ("empty", [], "pure", "bool", pa),
        ("_put", ["signal"], "state", None, pa),
        ("enqueue", ["signal"], "state", None, pa),
        ("contains_source", ["option nat"], "pure", "bool", pa),
        ("enqueue_if_source_belongs", ["signal", "option nat"], "vs", "bool", pa),
        ("add_source", ["nat"], "state", None, pa),
        ("get", [], "vs", "signal", pa),
        ("get_top_event_if_priority", ["Z"], "vs_opt", "signal", pa),
    ])]
    # EventQueue.remove_source (not called by the library itself, public API): recognised as exactly
    #   try: with self._lock: self._contained_screens.remove(signal_source)   except KeyError as e: raise EventQueueError(..) from e
    # i.e. it touches the set of sources and NOTHING else (in particular not the pending entries)
    eqc = find_class(parse("simpleline/event_loop/event_queue.py"), "EventQueue")
    rs = find_func(eqc, "remove_source")
    W = "EventQueue.remove_source: "
    if [a.arg for a in rs.args.args] != ["self", "signal_source"] or rs.args.defaults:
        raise Unsupported(W + "signature")
    rb = [x for x in body_wo_doc(rs) if not is_log_call(x)]
    okrs = (len(rb) == 1 and isinstance(rb[0], ast.Try) and not rb[0].orelse and not rb[0].finalbody and len(rb[0].body) == 1
            and isinstance(rb[0].body[0], ast.With) and len(rb[0].body[0].items) == 1
            and ast.unparse(rb[0].body[0].items[0].context_expr) == "self._lock" and rb[0].body[0].items[0].optional_vars is None
            and len(rb[0].body[0].body) == 1 and isinstance(rb[0].body[0].body[0], ast.Expr)
            and ast.unparse(rb[0].body[0].body[0].value) == "self._contained_screens.remove(signal_source)"
            and len(rb[0].handlers) == 1 and ast.unparse(rb[0].handlers[0].type) == "KeyError"
            and len(rb[0].handlers[0].body) == 1 and isinstance(rb[0].handlers[0].body[0], ast.Raise)
            and isinstance(rb[0].handlers[0].body[0].exc, ast.Call)
            and ast.unparse(rb[0].handlers[0].body[0].exc.func) == "EventQueueError")
    if not okrs:
        raise Unsupported(W + ast.unparse(rs)[:160])
    out.append("(* EventQueue.remove_source: set.remove raises KeyError for a missing element -> EventQueueError (None = raised) *)\n"
               "Definition t_eq_remove_source (q : equeue) (v_signal_source : nat) : option equeue :=\n"
               "  if t_set_mem v_signal_source (eq_sources q)\n"
               "  then Some {| eq_entries := eq_entries q; eq_counter := eq_counter q;\n"
               "              eq_sources := filter (fun x => negb (Nat.eqb v_signal_source x)) (eq_sources q) |}\n"
               "  else None.")
    # AbstractSignal.priority / .source are the plain attributes set by __init__
    ab = find_class(parse("simpleline/event_loop/__init__.py"), "AbstractSignal")
    for prop, attr in (("priority", "_priority"), ("source", "_source")):
        b = body_wo_doc(find_func(ab, prop))
        if not (len(b) == 1 and isinstance(b[0], ast.Return) and ast.unparse(b[0].value) == "self." + attr):
            raise Unsupported("AbstractSignal.%s" % prop)
    # MainLoop.enqueue_signal
    ml = find_class(parse("simpleline/event_loop/main_loop.py"), "MainLoop")
    fn = find_func(ml, "enqueue_signal")
    if [a.arg for a in fn.args.args] != ["self", "signal"] or fn.args.defaults:
        raise Unsupported("MainLoop.enqueue_signal: signature")
    b = [s for s in body_wo_doc(fn) if not is_log_call(s)]
    W = "MainLoop.enqueue_signal: "
    if len(b) != 4:
        raise Unsupported(W + "expected 4 statements, found %d" % len(b))
    s0, s1, s2, s3 = b
    if not (isinstance(s0, ast.If) and ast.unparse(s0.test) == "self._force_quit" and not s0.orelse and len(s0.body) == 1
            and isinstance(s0.body[0], ast.Return) and s0.body[0].value is None):
        raise Unsupported(W + ast.unparse(s0)[:80])
    if not (isinstance(s1, ast.Expr) and ast.unparse(s1.value) == "super().enqueue_signal(signal)"):
        raise Unsupported(W + ast.unparse(s1)[:80])
    base = find_func(find_class(parse("simpleline/event_loop/__init__.py"), "AbstractEventLoop"), "enqueue_signal")
    if not all(is_log_call(s) for s in body_wo_doc(base)):
        raise Unsupported("AbstractEventLoop.enqueue_signal does more than logging")
    if not (isinstance(s2, ast.With) and len(s2.items) == 1 and ast.unparse(s2.items[0].context_expr) == "self._lock"
            and s2.items[0].optional_vars is None and len(s2.body) == 1 and isinstance(s2.body[0], ast.For)):
        raise Unsupported(W + ast.unparse(s2)[:80])
    loop = s2.body[0]
    it = ast.unparse(loop.iter)
    if it == "reversed(self._event_queues)":
        order = "(rev v_event_queues)"
    elif it == "self._event_queues":
        order = "v_event_queues"
    else:
        raise Unsupported(W + "iteration over " + it)
    if loop.orelse or not isinstance(loop.target, ast.Name) or len(loop.body) != 1:
        raise Unsupported(W + "loop body")
    qn = loop.target.id
    li = loop.body[0]
    if not (isinstance(li, ast.If) and not li.orelse and len(li.body) == 1 and isinstance(li.body[0], ast.Return) and li.body[0].value is None
            and isinstance(li.test, ast.Call) and isinstance(li.test.func, ast.Attribute) and isinstance(li.test.func.value, ast.Name)
            and li.test.func.value.id == qn and not li.test.keywords):
        raise Unsupported(W + ast.unparse(li)[:100])
    m = cfg.methods.get(li.test.func.attr)
    if m is None or m["mode"] != "vs" or len(li.test.args) != len(m["params"]):
        raise Unsupported(W + "call " + ast.unparse(li.test))

    def sigarg(e):
        s = ast.unparse(e)
        if s == "signal":
            return "v_signal"
        if s == "signal.source":
            return "(sg_src v_signal)"
        if s == "signal.priority":
            return "(sg_prio v_signal)"
        raise Unsupported(W + "argument " + s)
    args = " ".join(sigarg(a) for a in li.test.args)
    if not (isinstance(s3, ast.Expr) and isinstance(s3.value, ast.Call) and isinstance(s3.value.func, ast.Attribute)
            and ast.unparse(s3.value.func.value) == "self._active_queue" and not s3.value.keywords and len(s3.value.args) == 1):
        raise Unsupported(W + ast.unparse(s3)[:80])
    m3 = cfg.methods.get(s3.value.func.attr)
    if m3 is None or m3["mode"] != "state" or len(m3["params"]) != 1:
        raise Unsupported(W + "call " + ast.unparse(s3.value))
    out.append("(* MainLoop.enqueue_signal: EventQueue objects live in a store (list, object id = index);\n"
               "   _event_queues is a list of object ids, _active_queue an object id *)\n"
               "Fixpoint t_ml_enqueue_loop (store : list equeue) (queues : list nat) (v_signal : signal) : t_res (bool * list equeue) :=\n"
               "  match queues with\n"
               "  | [] => t_ok (false, store)\n"
               "  | v_queue :: rest =>\n"
               "    t_bind (%s (nth v_queue store empty_queue) %s) (fun r =>\n"
               "    let store := set_nth store v_queue (snd r) in\n"
               "    if (fst r : bool) then t_ok (true, store) else t_ml_enqueue_loop store rest v_signal)\n"
               "  end.\n"
               "Definition t_ml_enqueue_signal (v_force_quit : bool) (store : list equeue) (v_event_queues : list nat) (v_active_queue : nat)\n"
               "           (v_signal : signal) : t_res (list equeue) :=\n"
               "  if (v_force_quit : bool) then t_ok store else\n"
               "  t_bind (t_ml_enqueue_loop store %s v_signal) (fun r =>\n"
               "  let store := snd r in\n"
               "  if (fst r : bool) then t_ok store else\n"
               "  t_bind (%s (nth v_active_queue store empty_queue) %s) (fun q => t_ok (set_nth store v_active_queue q)))."
               % (m["g"], args, order, m3["g"], sigarg(s3.value.args[0])))
    return "\n".join(out)


# ---------------------------------------------------------------- every signal class as a constructor of sigspec
SIG_CLS = {"ExceptionSignal": "CLS_EXCEPTION", "RenderScreenSignal": "CLS_RENDER", "CloseScreenSignal": "CLS_CLOSE",
           "InputReceivedSignal": "CLS_RECEIVED", "InputReadySignal": "CLS_READY"}
# attribute of the Python signal object -> field of the model's sigspec and its type
SIG_FIELDS = {"InputReadySignal": {"input_handler_source": ("sp_a", "nat"), "data": ("sp_data", "str"), "success": ("sp_b", "bool")},
              "InputReceivedSignal": {"data": ("sp_data", "str")},
              "ExceptionSignal": {}, "RenderScreenSignal": {}, "CloseScreenSignal": {}}
SIG_IGNORED_ATTRS = {"ExceptionSignal": {"exception_info"}}      # not represented in the model
SIGS = {}     # class -> dict(params=[(name, type)], defaults={name: term})


def zconst(e, what):
    try:
        v = ast.literal_eval(e)
    except Exception:
        v = None
    if not isinstance(v, int) or isinstance(v, bool):
        raise Unsupported("%s is not an integer literal" % what)
    return "(%d)%%Z" % v


def signal_classes():
    tree = parse("simpleline/event_loop/signals.py")
    ab = find_class(parse("simpleline/event_loop/__init__.py"), "AbstractSignal")
    ai = find_func(ab, "__init__")
    if [a.arg for a in ai.args.args] != ["self", "source", "priority"] or len(ai.args.defaults) != 1:
        raise Unsupported("AbstractSignal.__init__: signature")
    b = body_wo_doc(ai)
    if sorted(ast.unparse(s) for s in b) != ["self._priority = priority", "self._source = source"]:
        raise Unsupported("AbstractSignal.__init__: body")
    out = ["Definition t_AbstractSignal_default_priority : Z := %s." % zconst(ai.args.defaults[0], "AbstractSignal default priority"),
           "Definition t_AbstractSignal (cls : nat) (v_source : option nat) (v_priority : Z) : sigspec :=\n"
           "  {| sp_cls := cls; sp_prio := v_priority; sp_src := v_source; sp_a := 0; sp_b := false; sp_data := [] |}."]
    classes = [n for n in tree.body if isinstance(n, ast.ClassDef)]
    if sorted(c.name for c in classes) != sorted(SIG_CLS):
        raise Unsupported("signals.py: the signal classes are %s" % sorted(c.name for c in classes))
    for c in classes:
        W = "%s: " % c.name
        if [ast.unparse(x) for x in c.bases] != ["AbstractSignal"] or c.keywords or c.decorator_list:
            raise Unsupported(W + "bases")
        body = [s for s in body_wo_doc(c) if not isinstance(s, ast.Pass)]
        g = "t_sig_" + c.name
        if not body:
            # inherits AbstractSignal.__init__(source, priority=<default>)
            out.append("Definition %s_default_priority : Z := t_AbstractSignal_default_priority.\n"
                       "Definition %s (v_source : option nat) (v_priority : Z) : sigspec := t_AbstractSignal %s v_source v_priority."
                       % (g, g, SIG_CLS[c.name]))
            SIGS[c.name] = dict(params=[("source", "option nat"), ("priority", "Z")], defaults={"priority": g + "_default_priority"})
            continue
        if len(body) != 1 or not isinstance(body[0], ast.FunctionDef) or body[0].name != "__init__":
            raise Unsupported(W + "class body has more than __init__")
        init = body[0]
        a = init.args
        if a.vararg or a.kwarg or a.kwonlyargs or a.posonlyargs or init.decorator_list:
            raise Unsupported(W + "__init__ signature")
        names = [x.arg for x in a.args]
        if len(names) < 2 or names[0] != "self":
            raise Unsupported(W + "__init__ signature")
        ignored = SIG_IGNORED_ATTRS.get(c.name, set())
        stmts = body_wo_doc(init)
        # super().__init__(source[, priority=...])
        s0 = stmts[0] if stmts else None
        if not (isinstance(s0, ast.Expr) and isinstance(s0.value, ast.Call) and ast.unparse(s0.value.func) == "super().__init__"
                and len(s0.value.args) == 1 and isinstance(s0.value.args[0], ast.Name) and s0.value.args[0].id == names[1]
                and all(kw.arg == "priority" for kw in s0.value.keywords) and len(s0.value.keywords) <= 1):
            raise Unsupported(W + "__init__ does not start with super().__init__(%s[, priority=...])" % names[1])
        ptype = {names[1]: "option nat"}
        if s0.value.keywords:
            pe = s0.value.keywords[0].value
            if isinstance(pe, ast.Name) and pe.id in names[2:]:
                prio = gv(pe.id)
                ptype[pe.id] = "Z"
            else:
                prio = zconst(pe, W + "priority")
        else:
            prio = "t_AbstractSignal_default_priority"
        fields = {}
        for st in stmts[1:]:
            if isinstance(st, ast.Assign) and len(st.targets) == 1 and isinstance(st.targets[0], ast.Attribute) and \
               isinstance(st.targets[0].value, ast.Name) and st.targets[0].value.id == "self":
                at = st.targets[0].attr
                if at in SIG_FIELDS[c.name] and at not in fields and isinstance(st.value, ast.Name) and st.value.id in names[2:] \
                   and ptype.get(st.value.id, SIG_FIELDS[c.name][at][1]) == SIG_FIELDS[c.name][at][1]:
                    fields[at] = gv(st.value.id)
                    ptype[st.value.id] = SIG_FIELDS[c.name][at][1]
                    continue
            if isinstance(st, ast.If) and all(
                    isinstance(x, ast.Assign) and len(x.targets) == 1 and isinstance(x.targets[0], ast.Attribute) and
                    ast.unparse(x.targets[0].value) == "self" and x.targets[0].attr in ignored for x in list(st.body) + list(st.orelse)) \
                    and isinstance(st.test, ast.Name):
                ptype.setdefault(st.test.id, None)        # a parameter that only feeds an attribute outside the model
                continue
            raise Unsupported(W + "__init__: " + ast.unparse(st)[:80])
        if set(fields) != set(SIG_FIELDS[c.name]):
            raise Unsupported(W + "__init__ does not set %s" % sorted(set(SIG_FIELDS[c.name]) - set(fields)))
        params = []
        for p in names[1:]:
            if p not in ptype:
                raise Unsupported(W + "parameter %s is not used in a recognised way" % p)
            if ptype[p] is not None:
                params.append((p, ptype[p]))
        defaults = {}
        for p, d in zip(names[len(names) - len(a.defaults):], a.defaults):
            if ptype.get(p) is None:
                continue
            if ptype[p] == "Z":
                defaults[p] = zconst(d, W + "default of " + p)
            elif ptype[p] == "bool" and isinstance(d, ast.Constant) and isinstance(d.value, bool):
                defaults[p] = "true" if d.value else "false"
            else:
                raise Unsupported(W + "default of " + p)
        # parameters with defaults must come last among the kept ones (Python guarantees it for the full list)
        lines = ["Definition %s_default_%s : %s := %s." % (g, p, dict(params)[p], defaults[p]) for p, _ in params if p in defaults]
        fm = {v[0]: fields[k] for k, v in SIG_FIELDS[c.name].items()}
        lines.append("Definition %s%s : sigspec :=\n  let base := t_AbstractSignal %s %s %s in\n"
                     "  {| sp_cls := sp_cls base; sp_prio := sp_prio base; sp_src := sp_src base; sp_a := %s; sp_b := %s; sp_data := %s |}."
                     % (g, "".join(" (%s : %s)" % (gv(p), t) for p, t in params), SIG_CLS[c.name], gv(names[1]), prio,
                        fm.get("sp_a", "sp_a base"), fm.get("sp_b", "sp_b base"), fm.get("sp_data", "sp_data base")))
        out.append("\n".join(lines))
        SIGS[c.name] = dict(params=params, defaults={p: "%s_default_%s" % (g, p) for p in defaults})
    return "\n".join(out)


def sig_call(call, where, argterm):
    """a call  SignalClass(args...)  -> Gallina term; argterm(expr, type) translates one argument"""
    cname = call.func.id
    info = SIGS[cname]
    pn = [p for p, _ in info["params"]]
    given = {}
    if len(call.args) > len(pn):
        raise Unsupported(where + ": too many arguments in " + ast.unparse(call))
    for p, a in zip(pn, call.args):
        given[p] = a
    for kw in call.keywords:
        if kw.arg not in pn or kw.arg in given:
            raise Unsupported(where + ": keyword %s in %s" % (kw.arg, ast.unparse(call)))
        given[kw.arg] = kw.value
    terms = []
    for p, t in info["params"]:
        if p in given:
            terms.append(argterm(given[p], t))
        elif p in info["defaults"]:
            terms.append(info["defaults"][p])
        else:
            raise Unsupported(where + ": missing argument %s in %s" % (p, ast.unparse(call)))
    return "t_sig_%s %s" % (cname, " ".join("(%s)" % x for x in terms))


def one_sig_call(fn, cname, where):
    calls = [n for n in ast.walk(fn) if isinstance(n, ast.Call) and isinstance(n.func, ast.Name) and n.func.id in SIG_CLS]
    if len(calls) != 1 or calls[0].func.id != cname:
        raise Unsupported(where + ": expected exactly one %s(...) call" % cname)
    return calls[0]


def signal_sites():
    out = []
    # InputRequest.emit_input_ready_signal / emit_failed_input_ready_signal
    req = find_class(parse("simpleline/input/input_threading.py"), "InputRequest")
    for meth, extra in (("emit_input_ready_signal", ["input_data"]), ("emit_failed_input_ready_signal", [])):
        fn = find_func(req, meth)
        W = "InputRequest." + meth
        if [a.arg for a in fn.args.args] != ["self"] + extra:
            raise Unsupported(W + ": signature")
        b = body_wo_doc(fn)
        # handler_source = self.source ; signal_source = self._get_request_source() ; new_signal = InputReadySignal(...) ; enqueue
        if len(b) != 4 or ast.unparse(b[0]) != "handler_source = self.source" or ast.unparse(b[1]) != "signal_source = self._get_request_source()" \
           or not (isinstance(b[2], ast.Assign) and isinstance(b[2].targets[0], ast.Name) and isinstance(b[2].value, ast.Call)
                   and ast.unparse(b[2].value.func) == "InputReadySignal") \
           or ast.unparse(b[3]) != "App.get_event_loop().enqueue_signal(%s)" % b[2].targets[0].id:
            raise Unsupported(W + ": body")
        allowed = {"handler_source": "nat", "signal_source": "option nat", "input_data": "str"}

        def argterm(e, t, W=W, allowed=allowed, extra=extra):
            if isinstance(e, ast.Name) and e.id in allowed and allowed[e.id] == t and (e.id != "input_data" or "input_data" in extra):
                return gv(e.id)
            if isinstance(e, ast.Constant) and isinstance(e.value, bool) and t == "bool":
                return "true" if e.value else "false"
            if isinstance(e, ast.Constant) and isinstance(e.value, str) and t == "str":
                return coq_str(e.value)
            if t == "Z":
                return zconst(e, W + ": priority")
            raise Unsupported(W + ": argument " + ast.unparse(e))
        out.append("Definition t_req_%s (v_signal_source : option nat) (v_handler_source : nat)%s : sigspec :=\n  %s."
                   % (meth, " (v_input_data : str)" if extra else "", sig_call(b[2].value, W, argterm)))
    # InputRequest thread: enqueue_signal(InputReceivedSignal(self, data)) in run()
    fn = find_func(req, "run")
    c = one_sig_call(fn, "InputReceivedSignal", "InputRequest.run")

    def argterm2(e, t):
        if isinstance(e, ast.Name) and e.id == "self" and t == "option nat":
            return "None"             # the request object is never registered as a signal source
        if isinstance(e, ast.Name) and e.id == "data" and t == "str":
            return "v_data"
        if t == "Z":
            return zconst(e, "InputRequest.run: priority")
        raise Unsupported("InputRequest.run: argument " + ast.unparse(e))
    out.append("Definition t_req_run_signal (v_data : str) : sigspec :=\n  %s." % sig_call(c, "InputRequest.run", argterm2))
    # SignalHandler.create_signal / redraw / close (the screens)
    sh = find_class(parse("simpleline/render/screen/signal_handler.py"), "SignalHandler")
    cs = find_func(sh, "create_signal")
    if [a.arg for a in cs.args.args] != ["self", "signal_class", "priority"] or len(cs.args.defaults) != 1:
        raise Unsupported("SignalHandler.create_signal: signature")
    b = body_wo_doc(cs)
    if not (len(b) == 1 and isinstance(b[0], ast.Return) and ast.unparse(b[0].value) == "signal_class(self, priority)"):
        raise Unsupported("SignalHandler.create_signal: body")
    out.append("Definition t_sh_create_signal_default_priority : Z := %s." % zconst(cs.args.defaults[0], "create_signal default priority"))
    for meth in ("redraw", "close"):
        b = body_wo_doc(find_func(sh, meth))
        W = "SignalHandler." + meth
        if not (len(b) == 2 and isinstance(b[0], ast.Assign) and isinstance(b[0].targets[0], ast.Name) and isinstance(b[0].value, ast.Call)
                and ast.unparse(b[0].value.func) == "self.create_signal" and not b[0].value.keywords and 1 <= len(b[0].value.args) <= 2
                and isinstance(b[0].value.args[0], ast.Name) and b[0].value.args[0].id in SIGS
                and SIGS[b[0].value.args[0].id]["params"] == [("source", "option nat"), ("priority", "Z")]
                and ast.unparse(b[1]) == "App.get_event_loop().enqueue_signal(%s)" % b[0].targets[0].id):
            raise Unsupported(W + ": body")
        pr = zconst(b[0].value.args[1], W + ": priority") if len(b[0].value.args) == 2 else "t_sh_create_signal_default_priority"
        out.append("Definition t_sh_%s_signal (self_id : nat) : sigspec := t_sig_%s (Some self_id) %s." % (meth, b[0].value.args[0].id, pr))
    # ScreenScheduler.redraw: RenderScreenSignal(self); the scheduler is never registered as a source
    sched = find_class(parse("simpleline/render/screen_scheduler.py"), "ScreenScheduler")
    b = body_wo_doc(find_func(sched, "redraw"))
    if not (len(b) == 1 and isinstance(b[0], ast.Expr) and isinstance(b[0].value, ast.Call)
            and ast.unparse(b[0].value.func) == "self._event_loop.enqueue_signal" and len(b[0].value.args) == 1 and not b[0].value.keywords):
        raise Unsupported("ScreenScheduler.redraw: body")
    c = one_sig_call(find_func(sched, "redraw"), "RenderScreenSignal", "ScreenScheduler.redraw")

    def argterm3(e, t):
        if isinstance(e, ast.Name) and e.id == "self" and t == "option nat":
            return "None"
        if t == "Z":
            return zconst(e, "priority")
        raise Unsupported("argument " + ast.unparse(e))
    out.append("Definition t_sched_redraw_signal : sigspec := %s." % sig_call(c, "ScreenScheduler.redraw", argterm3))
    c = one_sig_call(find_func(sched, "push_screen_modal"), "RenderScreenSignal", "ScreenScheduler.push_screen_modal")
    out.append("Definition t_sched_push_screen_modal_signal : sigspec := %s." % sig_call(c, "ScreenScheduler.push_screen_modal", argterm3))
    # every ExceptionSignal(self) of the loop / scheduler / input manager
    n = 0
    for rel, cls in (("simpleline/event_loop/main_loop.py", "MainLoop"), ("simpleline/render/screen_scheduler.py", "ScreenScheduler"),
                     ("simpleline/render/screen/input_manager.py", "InputManager")):
        for call in [x for x in ast.walk(find_class(parse(rel), cls)) if isinstance(x, ast.Call) and isinstance(x.func, ast.Name) and x.func.id == "ExceptionSignal"]:
            t = sig_call(call, cls, argterm3)
            if t != "t_sig_ExceptionSignal (None)":
                raise Unsupported("%s: %s" % (cls, ast.unparse(call)))
            n += 1
    if n < 4:
        raise Unsupported("fewer ExceptionSignal(self) sites than expected")
    out.append("Definition t_exception_signal : sigspec := t_sig_ExceptionSignal (None).")
    return "\n".join(out)


# ---------------------------------------------------------------- InputManager.process_input: the error counter
def process_input_counter():
    cls = find_class(parse("simpleline/render/screen/input_manager.py"), "InputManager")
    fn = find_func(cls, "process_input")
    W = "InputManager.process_input: "
    if [a.arg for a in fn.args.args] != ["self", "user_input"]:
        raise Unsupported(W + "signature")
    b = [s for s in body_wo_doc(fn) if not is_log_call(s)]
    if len(b) != 3 or not isinstance(b[0], ast.Try) or not isinstance(b[1], ast.If) or not isinstance(b[2], ast.Expr):
        raise Unsupported(W + "expected try / if / call")
    tr, cond, last = b
    # try: result = self._process_input(user_input)
    if not (len(tr.body) == 1 and isinstance(tr.body[0], ast.Assign) and isinstance(tr.body[0].targets[0], ast.Name)
            and ast.unparse(tr.body[0].value) == "self._process_input(user_input)" and not tr.orelse and not tr.finalbody):
        raise Unsupported(W + "try body")
    res = tr.body[0].targets[0].id
    hs = tr.handlers
    if not (len(hs) == 2 and ast.unparse(hs[0].type) == "ExitMainLoop" and len(hs[0].body) == 1 and isinstance(hs[0].body[0], ast.Raise)
            and hs[0].body[0].exc is None and ast.unparse(hs[1].type) == "Exception" and len(hs[1].body) == 2
            and ast.unparse(hs[1].body[0]) == "App.get_event_loop().enqueue_signal(ExceptionSignal(self))"
            and isinstance(hs[1].body[1], ast.Return) and hs[1].body[1].value is None):
        raise Unsupported(W + "exception handlers")
    # if result.was_successful(): <counter stmt> else: <counter stmt>
    if ast.unparse(cond.test) == "%s.was_successful()" % res:
        neg = False
    elif ast.unparse(cond.test) == "not %s.was_successful()" % res:
        neg = True
    else:
        raise Unsupported(W + "condition " + ast.unparse(cond.test))

    def branch(stmts):
        if not stmts:
            return "counter"
        if len(stmts) != 1:
            raise Unsupported(W + "branch with %d statements" % len(stmts))
        st = stmts[0]
        if isinstance(st, ast.Assign) and ast.unparse(st.targets[0]) == "self._input_error_counter" and len(st.targets) == 1 and \
           isinstance(st.value, ast.Constant) and isinstance(st.value.value, int) and not isinstance(st.value.value, bool) and st.value.value >= 0:
            return "%d" % st.value.value
        if isinstance(st, ast.AugAssign) and ast.unparse(st.target) == "self._input_error_counter" and isinstance(st.op, ast.Add) and \
           isinstance(st.value, ast.Constant) and isinstance(st.value.value, int) and not isinstance(st.value.value, bool) and st.value.value >= 0:
            return "(counter + %d)%%nat" % st.value.value
        raise Unsupported(W + "statement " + ast.unparse(st)[:80])
    c = "t_was_successful v_result"
    if neg:
        c = "negb (%s)" % c
    if ast.unparse(last.value) != "App.get_scheduler().process_input_result(%s, self.input_error_threshold_exceeded)" % res:
        raise Unsupported(W + "final call " + ast.unparse(last)[:100])
    # _is_input_expected: prompt None resets the counter
    ie = body_wo_doc(find_func(cls, "_is_input_expected"))
    if not (len(ie) == 2 and isinstance(ie[0], ast.If) and ast.unparse(ie[0].test) == "prompt is None" and not ie[0].orelse
            and [ast.unparse(s) for s in ie[0].body] == ["self._input_error_counter = 0", "return False"] and ast.unparse(ie[1]) == "return True"):
        raise Unsupported("InputManager._is_input_expected")
    return ("Definition t_error_counter_update (v_result : action) (counter : nat) : nat :=\n  if %s then %s else %s.\n"
            "(* what process_input hands to ScreenScheduler.process_input_result, and the new counter *)\n"
            "Definition t_process_input_after (v_result : action) (counter : nat) : nat * (action * bool) :=\n"
            "  let counter := t_error_counter_update v_result counter in (counter, (v_result, t_threshold_exceeded counter)).\n"
            "Definition t_is_input_expected (prompt_is_none : bool) (counter : nat) : bool * nat :=\n"
            "  if prompt_is_none then (false, 0) else (true, counter)."
            % (c, branch(cond.body), branch(cond.orelse)))


# ---------------------------------------------------------------- ScreenScheduler.process_input_result as a program of ScreenSem
def process_input_result():
    sched = find_class(parse("simpleline/render/screen_scheduler.py"), "ScreenScheduler")
    fn = find_func(sched, "process_input_result")
    W = "ScreenScheduler.process_input_result: "
    if [a.arg for a in fn.args.args] != ["self", "input_result", "should_redraw"] or fn.args.defaults:
        raise Unsupported(W + "signature")
    # the callees the translation relies on
    ui = find_class(parse("simpleline/render/screen/__init__.py"), "UIScreen")
    b = body_wo_doc(find_func(ui, "get_input_with_error_check"))
    if not (len(b) == 1 and ast.unparse(b[0]) == "self._input_manager.get_input(args=args)"):
        raise Unsupported("UIScreen.get_input_with_error_check: body")
    cs = find_func(sched, "close_screen")
    if [a.arg for a in cs.args.args] != ["self", "closed_from"] or not (len(cs.args.defaults) == 1 and ast.unparse(cs.args.defaults[0]) == "None"):
        raise Unsupported("ScreenScheduler.close_screen: signature")
    ACT = {"UserInputAction." + k: v for k, v in ACTION.items()}

    def bad(what, node):
        raise Unsupported(W + what + ": " + ast.unparse(node)[:100].replace("\n", " "))

    def seq(a, b):
        return a if b is None else "%s ;;\n  %s" % (a, b)

    def cond(e, env):
        if isinstance(e, ast.UnaryOp) and isinstance(e.op, ast.Not):
            return "negb (%s)" % cond(e.operand, env)
        s = ast.unparse(e)
        if s == "input_result.was_successful()":
            return "t_was_successful v_input_result"
        if s == "should_redraw":
            return "(v_should_redraw : bool)"
        if isinstance(e, ast.Compare) and len(e.ops) == 1 and isinstance(e.ops[0], ast.Eq) and ast.unparse(e.left) == "input_result" \
           and ast.unparse(e.comparators[0]) in ACT:
            return "t_action_eqb v_input_result %s" % ACT[ast.unparse(e.comparators[0])]
        bad("condition", e)

    def blk(stmts, env, k):
        """k: code of what follows (None = nothing: the method returns)"""
        stmts = [s for s in stmts if not is_log_call(s)]
        if not stmts:
            return "PRet" if k is None else k
        st, rest = stmts[0], stmts[1:]
        after = lambda: blk(rest, env, k) if rest else k
        s = ast.unparse(st)
        if isinstance(st, ast.Return) and st.value is None:
            return "PRet"
        if isinstance(st, ast.Raise) and ast.unparse(st.exc) == "ExitMainLoop()":
            return "PThrow XExit"
        if s == "active_screen = self._get_last_screen()" and "active" not in env:
            inner = blk(rest, {**env, "active": True}, k)
            return "with_top (fun v_active_screen =>\n  %s)" % inner
        if s == "self.redraw()":
            return seq("sched_redraw", after())
        if s == "self.close_screen()":
            return seq("close_screen spec None", after())
        if s == "active_screen.ui_screen.get_input_with_error_check(active_screen.args)" and "active" in env:
            return seq("get_input spec (sd_scr v_active_screen) (sd_args v_active_screen)", after())
        if s == "self.push_screen_modal(self.quit_screen)" and "quit" in env:
            return seq("push_screen_modal spec v_quit_screen 0", after())
        if isinstance(st, ast.If):
            if ast.unparse(st.test) == "self.quit_screen" and "quit" not in env:
                # truth value of self.quit_screen: a screen or None
                return "rd (fun u => match st_quit u with\n  | Some v_quit_screen => %s\n  | None => %s\n  end)" % (
                    blk(list(st.body) + rest, {**env, "quit": True}, k), blk(list(st.orelse) + rest, env, k))
            c = cond(st.test, env)
            # the statements after the if are the continuation of both branches
            return "(if %s\n  then %s\n  else %s)" % (c, blk(list(st.body) + rest, env, k), blk(list(st.orelse) + rest, env, k))
        if isinstance(st, ast.Try) and "quit" in env:
            # try: if self.quit_screen.answer is True: raise ExitMainLoop() ; <more>   except AttributeError as e: raise ExitMainLoop() from e
            if st.orelse or st.finalbody or len(st.handlers) != 1 or ast.unparse(st.handlers[0].type) != "AttributeError" or len(st.body) < 1:
                bad("try", st)
            i0 = st.body[0]
            if not (isinstance(i0, ast.If) and ast.unparse(i0.test) == "self.quit_screen.answer is True" and not i0.orelse):
                bad("try body", st)
            for x in st.body[1:]:
                if ast.unparse(x) not in ("self.redraw()",) and not is_log_call(x):
                    bad("statement that could raise AttributeError differently", x)
            return "rd (fun u => match ss_answer (scr_of u v_quit_screen) with\n  | AnsTrue => %s\n  | AnsNoAttr => %s\n  | AnsOther => %s\n  end)" % (
                blk(list(i0.body) + list(st.body[1:]) + rest, env, k), blk(list(st.handlers[0].body), env, None),
                blk(list(st.body[1:]) + rest, env, k))
        bad("statement", st)
    return ("Definition t_process_input_result (spec : nat -> screen_spec) (v_input_result : action) (v_should_redraw : bool) : sprog :=\n  %s."
            % blk(body_wo_doc(fn), {}, None))


# ---------------------------------------------------------------- Prompt: the option methods and __str__
def prompt_class(pc):
    cfg = ClassCfg("Prompt", "simpleline/render/prompt.py", "prompt", "Prompt.prompt",
                   {"message": ("optstr", 0), "options": ("sdict", 1)},
                   {"message": "(Prompt.p_message {self})", "options": "(Prompt.p_options {self})"},
                   "{{| Prompt.p_message := {message}; Prompt.p_options := {options} |}}")
    cfg.consts = set(pc)
    out = [compile_class(cfg, [
        ("__init__", ["option str"], "init", None),
        ("set_message", ["option str"], "state", None),
        ("add_option", ["str", "str"], "state", None),
        ("update_option", ["str", "str"], "state", None),
        ("add_refresh_option", ["str"], "state", None),
        ("add_continue_option", ["str"], "state", None),
        ("add_quit_option", ["str"], "state", None),
        ("add_help_option", ["str"], "state", None),
        ("remove_option", ["str"], "vs", "option str"),
    ])]
    # ---- __str__ ----
    fn = find_func(cfg.cls, "__str__")
    W = "Prompt.__str__: "
    if [a.arg for a in fn.args.args] != ["self"]:
        raise Unsupported(W + "signature")

    def bad(what, node):
        raise Unsupported(W + what + ": " + ast.unparse(node)[:100].replace("\n", " "))

    def fmt(f, args, node):
        """'..%s..' % args  with %s only"""
        if "%" in f.replace("%s", ""):
            bad("format string", node)
        pieces = f.split("%s")
        if len(pieces) - 1 != len(args):
            bad("format arguments", node)
        parts = []
        for i, pcs in enumerate(pieces):
            if pcs:
                parts.append(coq_str(pcs))
            if i < len(args):
                parts.append(args[i])
        return "(" + " ++ ".join(parts) + ")" if parts else "[]"

    def sx(e, env):
        """an expression of type str / list str"""
        if isinstance(e, ast.Constant) and isinstance(e.value, str):
            return coq_str(e.value)
        if isinstance(e, ast.Name) and e.id in env:
            return gv(e.id)
        if isinstance(e, ast.Call) and isinstance(e.func, ast.Name) and e.func.id == "_" and len(e.args) == 1 and not e.keywords:
            return sx(e.args[0], env)                      # gettext: the identity without a catalogue
        s = ast.unparse(e)
        if s == "self.message":
            return "(t_optstr_val s_message)"
        if isinstance(e, ast.Subscript) and ast.unparse(e.value) == "self.options" and isinstance(e.slice, ast.Name) and e.slice.id in env \
           and env[e.slice.id] == "key":
            # the key comes from self.options.keys(): no KeyError
            return "(match Prompt.dict_get s_options %s with Some d => d | None => [] end)" % gv(e.slice.id)
        if isinstance(e, ast.BinOp) and isinstance(e.op, ast.Mod) and isinstance(e.left, ast.Constant) and isinstance(e.left.value, str):
            args = list(e.right.elts) if isinstance(e.right, ast.Tuple) else [e.right]
            return fmt(e.left.value, [sx(a, env) for a in args], e)
        if isinstance(e, ast.BinOp) and isinstance(e.op, ast.Add):
            return "(%s ++ %s)" % (sx(e.left, env), sx(e.right, env))
        if isinstance(e, ast.Call) and isinstance(e.func, ast.Attribute) and e.func.attr == "join" and len(e.args) == 1 and not e.keywords \
           and isinstance(e.func.value, ast.Constant) and isinstance(e.func.value.value, str):
            return "(Prompt.join %s %s)" % (coq_str(e.func.value.value), sx(e.args[0], env))
        if isinstance(e, ast.ListComp) and len(e.generators) == 1:
            g = e.generators[0]
            if not g.ifs and not g.is_async and isinstance(g.target, ast.Name) and ast.unparse(g.iter) in ("sorted(self.options.keys())", "sorted(self.options)"):
                return "(map (fun %s => %s) (Prompt.sort_keys (Prompt.dict_keys s_options)))" % (gv(g.target.id), sx(e.elt, {**env, g.target.id: "key"}))
        bad("expression", e)

    def truth(e):
        if isinstance(e, ast.UnaryOp) and isinstance(e.op, ast.Not):
            return "negb %s" % truth(e.operand)
        if isinstance(e, ast.BoolOp) and isinstance(e.op, ast.And):
            return "(" + " && ".join(truth(v) for v in e.values) + ")"
        s = ast.unparse(e)
        if s == "self.message":
            return "(t_truth_optstr s_message)"
        if s == "self.options":
            return "(negb (t_list_is_empty s_options))"
        bad("condition", e)
    body = body_wo_doc(fn)
    lines = []
    env = {}
    acc = None
    for i, st in enumerate(body):
        last = i == len(body) - 1
        if isinstance(st, ast.If) and not st.orelse and len(st.body) == 1 and isinstance(st.body[0], ast.Return) and acc is None:
            lines.append("if %s then %s else" % (truth(st.test), sx(st.body[0].value, env)))
        elif isinstance(st, ast.Assign) and len(st.targets) == 1 and isinstance(st.targets[0], ast.Name) and ast.unparse(st.value) == "[]" and acc is None:
            acc = st.targets[0].id
            env[acc] = "list"
            lines.append("let %s := [] in" % gv(acc))
        elif isinstance(st, ast.If) and not st.orelse and acc is not None:
            inner = []
            env2 = dict(env)
            for j, b in enumerate(st.body):
                if j == len(st.body) - 1:
                    if not (isinstance(b, ast.Expr) and isinstance(b.value, ast.Call) and ast.unparse(b.value.func) == acc + ".append"
                            and len(b.value.args) == 1 and not b.value.keywords):
                        bad("the conditional does not end with %s.append(...)" % acc, b)
                    inner.append("%s ++ [%s]" % (gv(acc), sx(b.value.args[0], env2)))
                elif isinstance(b, ast.Assign) and len(b.targets) == 1 and isinstance(b.targets[0], ast.Name) and b.targets[0].id not in env2:
                    inner.append("let %s := %s in" % (gv(b.targets[0].id), sx(b.value, env2)))
                    env2[b.targets[0].id] = "str"
                else:
                    bad("statement", b)
            lines.append("let %s := if %s then (%s) else %s in" % (gv(acc), truth(st.test), " ".join(inner), gv(acc)))
        elif isinstance(st, ast.Return) and last and st.value is not None:
            lines.append(sx(st.value, env) + ".")
        else:
            bad("statement", st)
    if not lines or not lines[-1].endswith("."):
        raise Unsupported(W + "no final return")
    out.append("Definition t_prompt_str (self : Prompt.prompt) : str :=\n  let s_message := Prompt.p_message self in\n"
               "  let s_options := Prompt.p_options self in\n  " + "\n  ".join(lines))
    return "\n".join(out)


# ---------------------------------------------------------------- what a draw prints around the widget
def draw_constants(pc):
    # ScreenScheduler._spacer:  "\n".join(2 * [App.get_configuration().width * "="])
    sched = find_class(parse("simpleline/render/screen_scheduler.py"), "ScreenScheduler")
    fn = find_func(sched, "_spacer")
    b = body_wo_doc(fn)
    W = "ScreenScheduler._spacer: "
    if fn.args.args or len(b) != 1 or not isinstance(b[0], ast.Return):
        raise Unsupported(W + "shape")
    e = b[0].value
    if not (isinstance(e, ast.Call) and isinstance(e.func, ast.Attribute) and e.func.attr == "join" and isinstance(e.func.value, ast.Constant)
            and isinstance(e.func.value.value, str) and len(e.args) == 1 and not e.keywords and isinstance(e.args[0], ast.BinOp)
            and isinstance(e.args[0].op, ast.Mult)):
        raise Unsupported(W + ast.unparse(e))
    m = e.args[0]
    n, lst = (m.left, m.right) if isinstance(m.left, ast.Constant) else (m.right, m.left)
    if not (isinstance(n, ast.Constant) and isinstance(n.value, int) and not isinstance(n.value, bool) and n.value >= 0
            and isinstance(lst, ast.List) and len(lst.elts) == 1 and isinstance(lst.elts[0], ast.BinOp) and isinstance(lst.elts[0].op, ast.Mult)):
        raise Unsupported(W + ast.unparse(m))
    r = lst.elts[0]
    wd, ch = (r.left, r.right) if isinstance(r.right, ast.Constant) else (r.right, r.left)
    if not (ast.unparse(wd) == "App.get_configuration().width" and isinstance(ch, ast.Constant) and isinstance(ch.value, str)):
        raise Unsupported(W + ast.unparse(r))
    out = ["Definition t_str_mul (n : Z) (s : str) : str := concat (repeat s (Z.to_nat n)).      (* n * s; n <= 0 gives the empty string *)\n"
           "Definition t_list_mul {A : Type} (n : nat) (l : list A) : list A := concat (repeat l n).\n"
           "Definition t_spacer (width : Z) : str := Prompt.join %s (t_list_mul %d [t_str_mul width %s])."
           % (coq_str(e.func.value.value), n.value, coq_str(ch.value))]
    # UIScreen._print_widget: custom_prompt = Prompt(_("\nPress %s to continue") % Prompt.ENTER)
    ui = find_class(parse("simpleline/render/screen/__init__.py"), "UIScreen")
    pw = find_func(ui, "_print_widget")
    calls = [x for x in ast.walk(pw) if isinstance(x, ast.Call) and isinstance(x.func, ast.Name) and x.func.id == "Prompt"]
    W = "UIScreen._print_widget: "
    if len(calls) != 1 or len(calls[0].args) != 1 or calls[0].keywords:
        raise Unsupported(W + "expected one Prompt(message) call")
    a = calls[0].args[0]
    if not (isinstance(a, ast.BinOp) and isinstance(a.op, ast.Mod) and ast.unparse(a.right).startswith("Prompt.") and ast.unparse(a.right)[7:] in pc):
        raise Unsupported(W + ast.unparse(a))
    f = a.left
    if isinstance(f, ast.Call) and isinstance(f.func, ast.Name) and f.func.id == "_" and len(f.args) == 1 and not f.keywords:
        f = f.args[0]
    if not (isinstance(f, ast.Constant) and isinstance(f.value, str) and f.value.count("%s") == 1 and "%" not in f.value.replace("%s", "")):
        raise Unsupported(W + "format string " + ast.unparse(a.left))
    pre, post = f.value.split("%s")
    out.append("Definition t_continue_message : str := %s ++ t_%s ++ %s." % (coq_str(pre), ast.unparse(a.right)[7:], coq_str(post)))
    return "\n".join(out)


def main():
    try:
        pc = prompt_constants()
        parts = [
            "(* GENERATED by tools/translate.py from %s — do not edit; regenerated on every build. *)" % repo,
            "From Coq Require Import ZArith NArith List Bool.",
            "From SL Require Prompt.",
            "From SL Require Import PyInt KeyPattern LoopSem ScreenSem.",
            "Import ListNotations.",
            "Definition t_streq (a b : str) : bool := (length a =? length b)%nat && forallb (fun p => (fst p =? snd p)%N) (combine a b).",
            "\n".join("Definition t_%s : str := %s." % (k, coq_str(pc[k])) for k in
                      ("REFRESH", "CONTINUE", "QUIT", "HELP", "DEFAULT_MESSAGE", "ENTER", "QUIT_DESCRIPTION",
                       "CONTINUE_DESCRIPTION", "REFRESH_DESCRIPTION", "HELP_DESCRIPTION")),
            process_input_table(pc),
            input_manager_constants(),
            key_pattern(),
            signals(),
            paging_constant(),
            PRELUDE,
            ticket_machine(),
            screen_stack(),
            event_queue(),
            signal_classes(),
            signal_sites(),
            process_input_counter(),
            process_input_result(),
            prompt_class(pc),
            draw_constants(pc),
        ]
        print("\n\n".join(parts))
    except Unsupported as e:
        print("(* GENERATED by tools/translate.py — TRANSLATION FAILED (fail-closed) *)")
        print('Definition translation_failed : nat := "%s".   (* deliberately ill-typed *)' % str(e).replace('"', "'"))
        sys.exit(0)


main()
