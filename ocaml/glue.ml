(* glue.ml — the only hand-written OCaml: text <-> Sx.sx, one case per line.
   Integers are converted digit-wise to the extracted Z (no Extract Constant). *)
open BinNums
open Sx

let rec pos_of_int (n : int) : positive =
  if n = 1 then Coq_xH
  else if n land 1 = 0 then Coq_xO (pos_of_int (n lsr 1))
  else Coq_xI (pos_of_int (n lsr 1))

let z_of_int (n : int) : coq_Z =
  if n = 0 then Z0 else if n > 0 then Zpos (pos_of_int n) else Zneg (pos_of_int (- n))

let rec int_of_pos = function
  | Coq_xH -> 1
  | Coq_xO p -> 2 * int_of_pos p
  | Coq_xI p -> 2 * int_of_pos p + 1

let int_of_z = function Z0 -> 0 | Zpos p -> int_of_pos p | Zneg p -> - (int_of_pos p)

exception Parse of string

let parse (s : string) : sx =
  let n = Stdlib.String.length s in
  let pos = ref 0 in
  let rec skip () = if !pos < n && (s.[!pos] = ' ' || s.[!pos] = '\t' || s.[!pos] = '\r') then (incr pos; skip ()) in
  let rec item () : sx =
    skip ();
    if !pos >= n then raise (Parse "eof");
    if s.[!pos] = '(' then begin
      incr pos;
      let acc = ref [] in
      let rec loop () =
        skip ();
        if !pos >= n then raise (Parse "unclosed");
        if s.[!pos] = ')' then incr pos else (acc := item () :: !acc; loop ()) in
      loop ();
      L (Stdlib.List.rev !acc)
    end else begin
      let st = !pos in
      if s.[!pos] = '-' then incr pos;
      while !pos < n && s.[!pos] >= '0' && s.[!pos] <= '9' do incr pos done;
      if !pos = st then raise (Parse "token");
      I (z_of_int (int_of_string (Stdlib.String.sub s st (!pos - st))))
    end in
  let r = item () in
  skip ();
  if !pos < n then raise (Parse "trailing");
  r

let rec print (b : Stdlib.Buffer.t) (x : sx) : unit =
  match x with
  | I z -> Stdlib.Buffer.add_string b (string_of_int (int_of_z z))
  | L l ->
    Stdlib.Buffer.add_char b '(';
    Stdlib.List.iteri (fun i y -> if i > 0 then Stdlib.Buffer.add_char b ' '; print b y) l;
    Stdlib.Buffer.add_char b ')'

let serve (table : (string * (sx -> sx)) list) =
  let f =
    try Stdlib.List.assoc Sys.argv.(1) table
    with _ -> (prerr_endline "usage: model <entry>   (cases on stdin, one per line)"; exit 2) in
  let b = Stdlib.Buffer.create 65536 in
  (try
     while true do
       let line = input_line stdin in
       Stdlib.Buffer.clear b;
       (try print b (f (parse line))
        with Parse m -> (Stdlib.Buffer.clear b; Stdlib.Buffer.add_string b ("!parse error: " ^ m))
           | Stack_overflow -> (Stdlib.Buffer.clear b; Stdlib.Buffer.add_string b "!stack overflow"));
       print_string (Stdlib.Buffer.contents b);
       print_newline ()
     done
   with End_of_file -> ())
